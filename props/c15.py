"""C15 — alignment transformations keep the alignment well formed and the residues intact; WUSS round trips.
Model: lean/EaselModel/Msa/*, theorems: Props/C15.lean, harness: h_msaops.c, tables: translate/c15_abc_tables.py"""
import os, struct, string
from vlib.engine import Prop, Failure, SAN_FLAGS
from translate import c15_abc_tables

RB_WITNESS = "<ABCDEFGHIJKLMNOPQRSTUVWXYZ>:<A>aabcdefghijklmnopqrstuvwxyz"


def hx(b):
    if isinstance(b, str): b = b.encode("latin-1")
    return b.hex() if b else "-"

def unhx(s):
    if s == "~": return None
    if s == "-": return b""
    return bytes.fromhex(s)

def dbits(x): return "%016x" % struct.unpack("<Q", struct.pack("<d", x))[0]
def fbits(x): return "%08x" % struct.unpack("<I", struct.pack("<f", x))[0]

# ---------------------------------------------------------------- independent WUSS reading (specification side)
OPEN, CLOSE = "<([{", ">)]}"
def wuss_pairs(ss):
    """set of pairs (i<j, 0-based) or None when some bracket language is unbalanced/mismatched or a symbol is illegal"""
    if isinstance(ss, bytes): ss = ss.decode("latin-1")
    st = {}
    pairs = set()
    for p, c in enumerate(ss):
        if not (32 <= ord(c) <= 126): return None
        if c in OPEN: st.setdefault(0, []).append(p)
        elif c in CLOSE:
            s = st.get(0, [])
            if not s: return None
            q = s.pop()
            if OPEN.index(ss[q]) != CLOSE.index(c): return None
            pairs.add((q, p))
        elif c.isupper() and c.isascii(): st.setdefault(c, []).append(p)
        elif c.islower() and c.isascii():
            s = st.get(c.upper(), [])
            if not s: return None
            pairs.add((s.pop(), p))
        elif c not in ":,_-.~": return None
    if any(st.values()): return None
    return pairs

ABC = {"rna": (4, 18, "ACGU-RYMKSWHBVDN*~"), "dna": (4, 18, "ACGT-RYMKSWHBVDN*~"), "amino": (20, 29, "ACDEFGHIKLMNPQRSTVWY-BJZOUX*~")}

DEGEN = {}
INMAP = {}

def is_residue_code(abc, x):
    K, Kp, _ = ABC[abc]
    return x < K or (K < x < Kp - 2)


class Dump:
    """parsed `dump` line"""
    def __init__(self, line):
        self.ok = line.startswith("ok nseq=")
        self.sq, self.comment, self.gf, self.gs, self.gc, self.gr = [], [], [], [], [], []
        self.f = {}
        if not self.ok: return
        for w in line.split()[1:]:
            k, v = w.split("=", 1)
            if k == "sq":
                p = v.split(",")
                self.sq.append(dict(name=unhx(p[0]), wgt=p[1], row=unhx(p[2]) if p[2] != "BADSENTINEL" else None,
                                    acc=unhx(p[3]), desc=unhx(p[4]), ss=unhx(p[5]), sa=unhx(p[6]), pp=unhx(p[7])))
            elif k == "comment": self.comment.append(unhx(v))
            elif k == "gf": self.gf.append(tuple(unhx(x) for x in v.split(",")))
            elif k == "gc": self.gc.append(tuple(unhx(x) for x in v.split(",")))
            elif k == "gs": p = v.split(","); self.gs.append((unhx(p[0]), [unhx(x) for x in p[1:]]))
            elif k == "gr": p = v.split(","); self.gr.append((unhx(p[0]), [unhx(x) for x in p[1:]]))
            else: self.f[k] = v
        self.nseq, self.alen, self.flags, self.abc = int(self.f["nseq"]), int(self.f["alen"]), int(self.f["flags"]), self.f["abc"]
        self.digital = bool(self.flags & 2)
        for k in ("ss_cons", "sa_cons", "pp_cons", "rf", "mm", "name", "desc", "acc", "au"):
            setattr(self, k, unhx(self.f[k]))

    def wellformed(self):
        """None or a reason: every aligned thing has length alen, >= 1 sequence"""
        if self.nseq < 1: return "no sequences"
        if len(self.sq) != self.nseq: return "nseq disagrees with rows"
        for i, s in enumerate(self.sq):
            if s["row"] is None or len(s["row"]) != self.alen: return "row %d has wrong length" % i
            for k in ("ss", "sa", "pp"):
                if s[k] is not None and len(s[k]) != self.alen: return "%s of seq %d has wrong length" % (k, i)
        for k in ("ss_cons", "sa_cons", "pp_cons", "rf", "mm"):
            v = getattr(self, k)
            if v is not None and len(v) != self.alen: return "%s has wrong length" % k
        for t, v in self.gc:
            if v is None or len(v) != self.alen: return "GC %r has wrong length" % t
        for t, vs in self.gr:
            if len(vs) != self.nseq: return "GR table width"
            for v in vs:
                if v is not None and len(v) != self.alen: return "GR %r has wrong length" % t
        for t, vs in self.gs:
            if len(vs) != self.nseq: return "GS table width"
        return None

    def dealigned(self, i, gaps=None):
        r = self.sq[i]["row"]
        if self.digital: return bytes(x for x in r if is_residue_code(self.abc, x))
        if gaps is None: return bytes(x for x in r if chr(x).isalnum() and x < 128)      # what esl_msa.c calls a residue in text mode
        return bytes(x for x in r if x not in gaps)

    def is_gap(self, i, c, gaps):
        x = self.sq[i]["row"][c]
        if self.digital:
            K, Kp, _ = ABC[self.abc]; return x == K or x == Kp - 1
        return x in gaps


def expand_mask(kv, need):
    pat = kv["mask"] if kv["mask"] != "-" else ""
    if kv.get("cyc") == "1":
        return [bool(pat) and pat[i % len(pat)] == "1" for i in range(need)]
    return [c == "1" for c in pat]

def filt(mask, s):
    return None if s is None else bytes(c for c, m in zip(s, mask) if m)


def f32x(x):
    try: return struct.unpack("<f", struct.pack("<f", x))[0]
    except OverflowError: return float("inf") if x > 0 else float("-inf")

def f32(x): return struct.unpack("<f", struct.pack("<f", x))[0]
def bits2d(h): return struct.unpack("<d", struct.pack("<Q", int(h, 16)))[0]
def bits2f(h): return struct.unpack("<f", struct.pack("<I", int(h, 16)))[0]

def compare_old(a, b, tol, single):
    """esl_DCompare_old / esl_FCompare_old"""
    import math
    if math.isinf(a) and math.isinf(b): return True
    if math.isnan(a) and math.isnan(b): return True
    if not math.isfinite(a) or not math.isfinite(b): return False
    if a == b: return True
    if abs(a) == 0.0 and abs(b) <= tol: return True
    if abs(b) == 0.0 and abs(a) <= tol: return True
    try:
        d, s_ = (f32(a - b), f32(a + b)) if single else (a - b, a + b)
    except OverflowError:
        return False
    if s_ == 0.0: return False       # x / 0 = inf (or nan): not <= tol
    return 2.0 * abs(d) / abs(s_) <= tol

def spec_compare(A, B, part):
    """what the documentation of esl_msa_Compare promises, on two parsed dumps: (mandatory ok, optional ok)"""
    mand = A.nseq == B.nseq and A.alen == B.alen and A.flags == B.flags
    if mand:
        for x, y in zip(A.sq, B.sq):
            if x["name"] != y["name"] or x["row"] != y["row"] or not compare_old(bits2d(x["wgt"]), bits2d(y["wgt"]), 0.001, False): mand = False
    opt = all(getattr(A, k) == getattr(B, k) for k in ("name", "desc", "acc", "au", "ss_cons", "sa_cons", "pp_cons", "rf", "mm"))
    if opt and A.nseq == B.nseq:
        for k in ("acc", "desc", "ss", "sa", "pp"):
            if [x[k] for x in A.sq] != [y[k] for y in B.sq]: opt = False
    if opt:
        ca, cb = A.f["cutoff"].split(","), B.f["cutoff"].split(",")
        sa, sb = A.f["cutset"].split(","), B.f["cutset"].split(",")
        for i in range(6):
            if sa[i] != sb[i]: opt = False
            elif sa[i] == "1" and not compare_old(bits2f(ca[i]), bits2f(cb[i]), f32(0.01), True): opt = False
    return mand, opt

def spec_checksum(d):
    val = 0
    for x in d.sq:
        for c in x["row"]:
            if not d.digital and c >= 128: c += 0xffffff00
            val = (val + c) & 0xffffffff
            val = (val + (val << 10)) & 0xffffffff
            val ^= val >> 6
    val = (val + (val << 3)) & 0xffffffff
    val ^= val >> 11
    val = (val + (val << 15)) & 0xffffffff
    return val


class C15(Prop):
    id = "C15"
    lean_modules = ["EaselModel.Props.C15"]
    lean_exe = "c15_driver"
    harness = "h_msaops.c"
    theorems = ["EaselModel.Props.C15." + t for t in (
        "compact_is_filter", "columnSubset_is_filter", "columnCompact_is_filter", "columnSubset_nucleic", "columnSubset_nucleic_plain",
        "columnSubset_wellformed", "columnSubset_dealign",
        "minimGaps_text_removes_exactly", "minimGaps_digital_removes_exactly", "minimGaps_text_is_filter",
        "minimGaps_digital_is_filter", "noGaps_text_keeps_exactly", "noGaps_text_is_filter", "fetch_is_ungapped_row", "fetch_after_gap_removal",
        "sequenceSubset_keeps_rows", "sequenceSubset_fails_iff_empty", "sequenceSubset_wellformed",
        "sequenceSubset_attached", "sequenceSubset_keeps_markup", "clone_is_identity",
        "digital_text_digital", "generated_tables_consistent", "text_digital_text",
        "canonical_symbol_amino", "canonical_symbol_rna", "canonical_symbol_dna",
        "reverseComplement_twice", "generated_complement_involutive",
        "flushLeftInserts_spec", "markFragmentsOld_row_spec", "markFragmentsOld_rows", "generated_gap_missing_codes",
        "wuss2ct_accepts_iff", "wuss2ct_involution", "wuss2ct_pairs_matched", "wuss2ct_of_labels", "ct2wuss_nested_labels", "nested_roundtrip", "nested_roundtrip_total", "simple_nested_roundtrip_total", "removeBroken_nested", "repaired_then_compacted_balanced",
        "wuss2ct_nopk_nested", "nopk_wuss_roundtrip", "nopk_repaired_then_compacted",
        "compacted_pairs", "newPos_agrees", "nopk_columnSubset_pairs", "wuss2ct_of_class_labels", "pk_roundtrip", "ct2wuss_is_class_labelling", "wuss_ct_wuss_ct_pk",
        "removeBroken_pairs_pk", "columnSubset_pairs_pk", "wuss_ct_wuss_ct",
        "removeBroken_keeps_exactly", "removeBroken_rejects_unbalanced",
        "ct2wuss_shape", "wussFull_nopk", "wussReverse_involutive",
        # round 3
        "columnSubset_msa_sscons_pairs",
        "compare_ok_iff", "compare_ok_or_fail", "compareMandatory_ok_iff", "compareOptional_ok_iff", "compare_ignores_unparsed", "compare_refl", "compare_clone",
        "hashNames_ok_iff", "checksum_is_hash_of_rows", "checksum_congr",
        "convertDegen2X_spec", "generated_degen_ok", "convertDegen2X_text", "symConvert_spec", "symConvert_rejects", "setDefaultWeights_resets",
        "reasonableRF_shape_partial",
        "sq_text_digital_text", "sq_digitize_rejects", "sq_digital_text_digital", "sq_revcomp_spec", "sq_revcomp_twice", "textCompl_involutive",
        "sq_revcomp_text_status", "sq_convertDegen2X_spec",
        "columnSubset_msa_ss_pairs", "minimGaps_digital_nucleic", "addGS_spec", "appendGR_spec", "appendGC_new",
        # round 4
        "compaction_pairs_exact", "compaction_entry_points", "sequenceSubset_markup_exact",
        "ct2wuss_total", "wuss_ct_wuss_ct_total", "removeBroken_total",
        "ct2wuss_ok_iff", "ct2wuss_ok_of_few_pk", "ct2wuss_fails_needs_27", "wuss_few_pk_roundtrip",
        "markFragments_spec", "reverseComplement_spec", "reverseComplement_rejects", "addComment_addGF_spec",
        "simple_pk_roundtrip", "ct2simplewuss_total", "ct2simplewuss_ok_of_few_pk", "wuss_ct_simplewuss_ct_total",
        "wuss2ct_iff_class_labelling", "wussReverse_pairs", "reverseComplement_ss_pairs",
        "columnSubset_ok_of_few_pk", "reasonableRF_cons_shape_partial", "wussNopseudo_pairs", "wussFull_total", "flushLeftInserts_inplace", "kh_roundtrip_pairs", "transformed_wellformed", "generated_wf_side_conditions",
        # round 6
        "reasonableRF_cons_no_alphabet", "reasonableRF_cons_digital", "reasonableRF_cons_text_eq_digital", "reasonableRF_cons_text_shape", "generated_text_cells", "reasonableRF_threshold_exact",
        "setStr_frame", "setStr_stores", "formatStr_is_setStr", "markFragments_threshold_exact", "sample_wellformed", "setStr_wellformed", "generated_abcOk", "history_wellformed", "exRfText_inv", "history_wellformed_markup", "expand_spec")]
    claimed = True
    technique = ("Lean 4 proof about an executable hand model of esl_msa.c / esl_wuss.c (in-place compaction loop = filter-by-mask on every aligned field, well-formedness invariants, "
                 "tag-table rebuild of SequenceSubset, mode-conversion and reverse-complement identities over alphabet tables regenerated from the tree, 27-stack WUSS reader = 27 Dyck recognisers, "
                 "pair-table involution, base-pair repair loop, nested ct->WUSS->ct round trip through the imperative esl_ct2wuss model) "
                 "+ exact differential correspondence of the model with the ASan/UBSan/LSan-built code on random annotated alignments, op chains and WUSS strings, with property monitors")
    level_text = ("Theorems (all alignments / masks / strings, no size bound): the in-place compaction loop of esl_msa_ColumnSubset = filter-by-mask; on a well-formed alignment ColumnSubset applies the SAME "
                  "column selection to rows, SS/SA/PP, every GR and GC line, SS_cons/SA_cons/PP_cons/RF/MM with no out-of-bounds access and preserves well-formedness - for DNA/RNA after the base-pair repair, "
                  "which rewrites only SS lines and keeps well-formedness; MinimGaps/NoGaps masks remove exactly the documented columns (RF rule as coded), rows keep their ungapped sequence, also as extracted by "
                  "esl_sq_FetchFromMSA; SequenceSubset keeps rows/names/weights/accessions/descriptions/SS/SA/PP of retained sequences at their rank, carries their GS/GR markup tag by tag, copies per-column "
                  "annotation, drops comments/GF/GC, result well formed; Clone = identity; digital->text->digital = id, text->digital->text = canonical symbol map (whole regenerated tables by decide); "
                  "ReverseComplement twice = id; FlushLeftInserts and MarkFragments_old keep every row's length and residues; esl_wuss2ct accepts iff all symbols legal and each of the 27 bracket languages balanced, "
                  "its table is a fixed-point-free involution joining matching symbols, nested when the string has no pseudoknot letters; RemoveBrokenBasepairs keeps exactly the pairs with both partners "
                  "retained; UNCONDITIONAL nested round trip: esl_ct2wuss and esl_ct2simplewuss succeed on every symmetric nested table and wuss2ct(ct2wuss ct) = ct, hence wuss->ct->wuss->ct = id and 'SS stays balanced WUSS with exactly "
                  "the retained pairs' for every letter-free SS line through repair + compaction; esl_wuss_reverse involutive. The hand model is tied to the working tree by an exact field-by-field differential run; "
                  "Round 4: esl_ct2wuss / esl_ct2simplewuss total (eslOK or 'not enough letters'), success for <= 26 pseudoknotted pairs, pseudoknotted round trip for both, exact surviving pairs "
                  "after repair + compaction for SS_cons and every per-sequence SS through every column-removing entry point. "
                  "Round 6: ReasonableRF(useconsseq) in every branch incl. the repaired text branch, exact rational thresholds of ReasonableRF / MarkFragments, the Set*/Format* family, esl_msa_Sample for every random source. "
                  "monitors restate the property on the implementation's own dumps against independent Python readers.")
    level_note = ("Round 6b: history_wellformed_markup (AddComment / AddGF / AddGS / AppendGR / AppendGC anywhere in a history, parser contract stated in the step) and expand_spec (esl_msa_Expand on a growable alignment: every per-sequence array and GS/GR row doubled, old slots in place, new slots NULL / -1.0 / 0; ops grow / expand compared slot by slot). "
                  "Round 6: esl_msa_ReasonableRF(useconsseq=TRUE) as repaired by 0c757a4 in every branch (known finding retired): reasonableRF_cons_no_alphabet (eslEINVAL), reasonableRF_cons_text_eq_digital "
                  "(text branch with a caller-supplied alphabet = digital branch on esl_msa_Digitize's result, for every threshold / weights / arithmetic), reasonableRF_cons_text_shape, generated_text_cells; "
                  "thresholds in exact arithmetic over Q with the code's own comparisons: reasonableRF_threshold_exact (r > 0 && r/totwgt >= symfrac), markFragments_threshold_exact (span < (int) ceil(t*alen) iff span < t*alen); "
                  "the Set*/Format* family (7 + 7 functions, explicit length n, NULL erasure, idx >= nseq / NULL name refused with eslEINCONCEIVABLE resp. eslEINVAL): setStr_frame, setStr_stores, formatStr_is_setStr; "
                  "esl_msa_Sample over an arbitrary source of 32-bit words (driver: Mersenne Twister of C09; probabilities and maxn regenerated from the tree): sample_wellformed for every source and state; "
                  "history_wellformed: every chain of successful ColumnSubset / RemoveBrokenBasepairs / SequenceSubset / Set* / Format* / Digitize / Textize / ReverseComplement / FlushLeftInserts / MarkFragments_old / ConvertDegen2X / SetDefaultWeights keeps the invariant (WF, valid codes, mode/alphabet, distinct tags). "
                  "Generators: every WUSS routine applied ONCE on odd/even lengths with pairing symbols at the first / last / exact centre column, directly and through esl_msa_ReverseComplement (SS_cons + per-sequence SS); "
                  "histories of 4-9 transformations with digital<->text switches at 15/16/17/31/32/33 sequences and 0/1/2 columns; sampled alignments followed by transformation chains. Defects found and repaired: 5db1eba, 26b69c5 (the second through the harness heap fill 0x00/0xff by seed parity, which was ineffective before this round: getenv() is NULL when ASan asks for its default options). "
                  "Round 4: esl_ct2wuss AND esl_ct2simplewuss are now TOTAL on every symmetric pair table (ct2wuss_total, ct2simplewuss_total): eslOK or the documented eslEINVAL "
                  "'not enough letters' - never an out-of-bounds access of ct/cct/ss/rb[26], never 'cannot find left partner', never eslEINCONCEIVABLE, never eslFAIL 'found x out of y pairs' "
                  "(npairs_reached is proved equal to the number of pairs); ct2wuss_ok_iff: eslOK iff the greedy lettering does not run out of A..Z; combinatorial sufficient condition "
                  "ct2wuss_ok_of_few_pk / ct2simplewuss_ok_of_few_pk: at most 26 pseudoknotted pairs (q < p < ct[q] < ct[p]) => converted and read back identically (bound attained: the 27-pair witness is "
                  "refused; not necessary: a 27-pair helix takes one letter) - the monitors tolerate eslEINVAL only above that proved bound; the pseudoknotted round trip is proved for esl_ct2simplewuss "
                  "too (simple_pk_roundtrip); hence wuss->ct->wuss->ct and RemoveBrokenBasepairsFromSS are identity-or-documented-failure on EVERY balanced string (wuss_ct_wuss_ct_total, "
                  "removeBroken_total). compaction_pairs_exact + compaction_entry_points: after the repair + compaction of ColumnSubset / MinimGaps / NoGaps (digital DNA/RNA) / MinimGapsText / NoGapsText "
                  "(fix_bps) SS_cons and EVERY per-sequence SS spell exactly the pairs with both columns retained, renumbered by the column map, rows are the filtered original rows, alignment well formed. "
                  "sequenceSubset_markup_exact: every slot of the subset's GS/GR tables is the slot of the retained sequence of that rank (sparse tags: none stays none). wuss2ct_iff_class_labelling: esl_wuss2ct returns ct IFF ct is a symmetric table and the string a class-nested labelling of it (complete characterisation of the reader); wussReverse_pairs: esl_wuss_reverse mirrors the pair set of every balanced string, hence reverseComplement_ss_pairs for SS_cons and every per-sequence SS; kh_roundtrip_pairs (wuss2kh then kh2wuss keeps the pair table), flushLeftInserts_inplace (the in-place two-counter loop of esl_msa_FlushLeftInserts, which the driver now runs, equals the left-to-right model the spec speaks about: b <= a is proved, no longer assumed), wussNopseudo_pairs (exactly the letter pairs removed) and wussFull_total (esl_wuss_full keeps the pair table of EVERY balanced string, letters included); columnSubset_ok_of_few_pk (repair + compaction cannot fail when every SS line has <= 26 pseudoknotted pairs); esl_msa_ReasonableRF with useconsseq=TRUE modelled (esl_abc_FCount into binary32 counts over degeneracy tables regenerated from the tree, esl_vec_FArgMax) and compared exactly. transformed_wellformed: FlushLeftInserts / MarkFragments_old / Digitize / Textize keep the alignment well formed. New specs: markFragments_spec "
                  "(span rule of esl_msa_MarkFragments), reverseComplement_spec (field by field, well-formedness kept), addComment_addGF_spec. "
                  "Round 3: columnSubset_msa_sscons_pairs; esl_msa_Compare / CompareMandatory / CompareOptional = eslOK iff the documented fields agree; esl_msa_Hash / CheckUniqueNames; "
                  "esl_msa_Checksum = Jenkins hash of the concatenated rows; ConvertDegen2X / SymConvert / SetDefaultWeights; ReasonableRF (useconsseq=FALSE) shape; esl_sq_Digitize/Textize/"
                  "ReverseComplement/ConvertDegen2X. Round 2: pk_roundtrip (invariant over the rb[]/auxpk lettering loop). "
                  "Remaining: the exact predicate of ct2wuss_ok_iff is the lettering run itself (no closed form: a letter is re-used only past its right bound and letters grow within a batch); "
                  "ReasonableRF: the threshold rule is a theorem in exact arithmetic (reasonableRF_threshold_exact, over Q with the code's comparison r > 0 && r/totwgt >= symfrac); in binary64/binary32 (what the driver runs) only the shape "
                  "of the line is a theorem (L0). useconsseq=TRUE as repaired by 0c757a4 is modelled in every branch: no alphabet -> eslEINVAL (reasonableRF_cons_no_alphabet), text branch with a caller-supplied alphabet = digital branch "
                  "on the digitized alignment (reasonableRF_cons_text_eq_digital), compared exactly (harness lends an alphabet to a text alignment for the call). Trusted: Lean kernel + propext/Classical.choice/Quot.sound; fidelity of the hand model is checked, not proved, by the differential run; float thresholds of MarkFragments are evaluated by the driver (L0).")
    diverge_is_violation = True
    fault_is_output = True       # faults are classified by monitor() (known finding vs. new)
    trusted_base = ["hand model of esl_msa.c/esl_wuss.c tied by exact field-by-field differential run (h_msaops.c, ASan+UBSan build of the working tree)",
                    "alphabet tables regenerated from esl_alphabet_Create() of the working tree (translate/c15_abc_tables.py)",
                    "Lean compiler/runtime for the executable driver; gcc"]
    assumptions = ["allocation never fails (eslEMEM paths not modelled); leaks on esl_ct2wuss error paths are outside the property (suppressed in LSan)",
                   "alignments are constructed through the public API (esl_msa_Create, Set*, AddGS, AppendGC/GR), not parsed from files (C01/C03 cover the parsers)",
                   "MarkFragments thresholds evaluated in binary32/binary64 by the driver (L0); esl_msa_Copy modelled through Create+Copy only",
                   "esl_msa_Compare model: an optional per-sequence array is non-NULL iff one of its entries is (checked by the harness on every compared alignment, 'repinv='); "
                   "esl_DCompare_old / esl_FCompare_old are parameters of the model and the theorems, evaluated in binary64/binary32 by the driver (L0)",
                   "esl_msa_ReasonableRF: both modes are modelled in digital and text mode (weight arithmetic a parameter: binary64 weights, binary32 counts in the driver, L0; exact over Q in the theorems); the text branch of useconsseq=TRUE is exercised "
                   "with an alphabet lent by the harness and only on rows whose letters belong to it (a foreign letter makes esl_abc_FCount read degen[255]: caller contract, model = fault, not generated)",
                   "esl_sq.c: FetchFromMSA, Digitize, Textize, ReverseComplement, ConvertDegen2X are modelled on the observable content of the sequence object (name/acc/desc/source, residues, ss, extra "
                   "markup, start/end, mode)",
                   "esl_msa_Sample is modelled over an arbitrary source of 32-bit words (driver: the Mersenne Twister model of C09), its double comparisons esl_random() < 0.1 / 0.02 / 0.7 as exact integer thresholds on the raw word; esl_msa_Set*/Format* are modelled with sqalloc = nseq (true of every alignment the library hands out); esl_msa_Expand is modelled on the per-sequence arrays of a growable alignment (op grow: every slot printed); not modelled: esl_msa_GuessAlphabet, esl_msa_Sizeof, esl_sq_Copy/Compare/Grow/Block*/CountResidues/Checksum"]
    rule = ("cases = construction of a random annotated alignment + chain of transformations with a full dump after each, or WUSS conversions; "
            "non-trivial = at least two successful operations and no fault; distinct by implementation output trace")
    quick_budget_s = 60

    # ------------------------------------------------------------------ generated tables
    def generated(self, ctx):
        txt = c15_abc_tables.dump(ctx.src, ctx.work, SAN_FLAGS)
        # the monitors' own view of the alphabets (K, Kp, symbols) is regenerated from the same dump of the working tree
        lines = txt.strip().split("\n")
        for k in range(0, len(lines), 6):
            _, nm, _ty, K, Kp = lines[k].split()
            ABC[nm] = (int(K), int(Kp), "".join(chr(int(x)) for x in lines[k + 1].split()[1:]))
            DEGEN[nm] = ([[c == "1" for c in row] for row in lines[k + 4].split()[1:]], [int(x) for x in lines[k + 5].split()[1:]])
            INMAP[nm] = [int(x) for x in lines[k + 2].split()[1:]]
        return {"EaselModel/Msa/AbcTables.lean": c15_abc_tables.to_lean(txt),
                "EaselModel/Msa/SampleConsts.lean": self.sample_consts(ctx)}

    def sample_consts(self, ctx):
        """the probabilities and the name length of esl_msa_Sample, read from the working tree; `esl_random(rng) < p` is a comparison of
        x / 2^32 (exact in binary64) with the binary64 p, i.e. x < ceil(p * 2^32) on the raw 32-bit word x"""
        import re, math
        from fractions import Fraction
        src = open(os.path.join(ctx.src, "esl_msa.c")).read()
        body = src[src.index("\nesl_msa_Sample("):]
        body = body[:body.index("\n}\n")]
        def dbl(name):
            m = re.search(r"double\s+%s\s*=\s*([0-9.eE+-]+)\s*;" % name, body)
            if not m: raise RuntimeError("esl_msa_Sample: no 'double %s = <literal>;'" % name)
            return math.ceil(Fraction(float(m.group(1))) * 2 ** 32)
        m = re.search(r"int\s+maxn\s*=\s*(\d+)\s*;", body)
        if not m: raise RuntimeError("esl_msa_Sample: no 'int maxn = <literal>;'")
        return ("/-! GENERATED on every run by props/c15.py from esl_msa_Sample() of the working tree. Do not edit. -/\n"
                "namespace EaselModel.Msa.Gen\n"
                "/-- `esl_random(rng) < pgap` iff the raw word is below this -/\ndef thrGap : Nat := %d\n"
                "/-- `esl_random(rng) < pdegen` -/\ndef thrDegen : Nat := %d\n"
                "/-- `esl_random(rng) < pcons` -/\ndef thrCons : Nat := %d\n"
                "/-- `maxn`: longest sampled name -/\ndef sampleMaxName : Nat := %d\n"
                "end EaselModel.Msa.Gen\n" % (dbl("pgap"), dbl("pdegen"), dbl("pcons"), int(m.group(1))))

    def canonical(self, line):
        if line.startswith("fault"): return "fault"
        return line

    # ------------------------------------------------------------------ generators
    def rand_struct(self, rng, n, pk_letters=0, p_pair=0.5):
        """random WUSS string of length n: nested brackets of the four kinds + optional pseudoknot letters"""
        s = [rng.choice(":,_-.~") if rng.random() < 0.3 else rng.choice("._-") for _ in range(n)]
        def fill(lo, hi, depth):
            while hi - lo >= 2 and rng.random() < p_pair and depth < 40:
                i = rng.randrange(lo, hi - 1); j = rng.randrange(i + 1, hi)
                k = rng.randrange(4) if rng.random() < 0.5 else 0
                # stems: extend inward
                ln = 1
                while i + ln < j - ln and rng.random() < 0.6: ln += 1
                for t in range(ln): s[i + t] = OPEN[k]; s[j - t] = CLOSE[k]
                fill(i + ln, j - ln + 1, depth + 1)
                fill(lo, i, depth + 1)
                lo = j + 1
        fill(0, n, 0)
        free = [i for i in range(n) if s[i] not in OPEN + CLOSE]
        for _ in range(pk_letters):
            if len(free) < 2: break
            L = rng.choice(string.ascii_uppercase[:rng.choice([2, 3, 5, 26])])
            m = rng.randrange(1, min(4, len(free) // 2) + 1)
            pos = sorted(rng.sample(free, 2 * m))
            # a Dyck word over this letter: either AA..aa or AaAa..
            if rng.random() < 0.7: word = [L] * m + [L.lower()] * m
            else: word = [L, L.lower()] * m
            for p, c in zip(pos, word): s[p] = c
            free = [i for i in free if i not in pos]
        return "".join(s)

    def break_struct(self, rng, s):
        if not s: return s
        i = rng.randrange(len(s)); s = list(s)
        s[i] = rng.choice("<>()[]{}AaBbZz" + "x!\x7f ")
        return "".join(s)

    def rand_alignment(self, rng, big=False, nseq_fix=None, alen_fix=None):
        mode = rng.choice(["text", "text", "rna", "rna", "dna", "amino"])
        nseq = rng.choice([1, 2, 3, 5, 8, rng.randrange(1, 31)])
        alen = rng.choice([1, 2, 3, 5, 10, 30, rng.randrange(1, 12), rng.randrange(1, 60), rng.randrange(1, 80)])
        if big:
            alen = rng.choice([rng.randrange(100, 201), rng.randrange(150, 201), 200, 199, 128, 129])
            nseq = rng.choice([1, 2, 3, rng.randrange(1, 9), rng.randrange(1, 31) if rng.random() < 0.2 else 4])
        if nseq_fix is not None: nseq = nseq_fix
        if alen_fix is not None: alen = alen_fix
        if mode == "amino": res = "ACDEFGHIKLMNPQRSTVWYBJZOUX"
        elif mode == "dna": res = "ACGTRYMKSWHBVDN"
        elif mode == "rna": res = "ACGURYMKSWHBVDN"
        else: res = "ACGUacguNnXx019"
        gapch = "-._~" if mode == "text" else "-.~_"
        allgap = [rng.random() < 0.2 for _ in range(alen)]
        rows = []
        for i in range(nseq):
            lo = rng.randrange(0, alen) if alen and rng.random() < 0.3 else 0
            hi = rng.randrange(lo, alen + 1) if rng.random() < 0.3 else alen
            r = []
            for c in range(alen):
                if allgap[c] or c < lo or c >= hi or rng.random() < 0.15: r.append(rng.choice(gapch[:2]) if rng.random() < 0.9 else rng.choice(gapch))
                else:
                    ch = rng.choice(res[:4] if rng.random() < 0.8 else res)
                    r.append(ch.lower() if mode != "text" and rng.random() < 0.2 else ch)
            if mode != "text" and rng.random() < 0.25 and alen: r[rng.randrange(alen)] = rng.choice("*~")
            rows.append("".join(r))
        ops = ["new nseq=%d alen=%d" % (nseq, alen)]
        rich = rng.random() < 0.3      # rich alignments carry (almost) every optional annotation
        _rand = rng.random
        class R:                      # probability booster for rich alignments
            @staticmethod
            def random(): return _rand() * (0.25 if rich else 1.0)
        haswgts = rng.random() < 0.4
        printable = string.ascii_letters + string.digits + "*.-_:;,|/+"
        def rs(n=None, alpha=printable): return "".join(rng.choice(alpha) for _ in range(n if n is not None else rng.randrange(1, 12)))
        nucleic = mode in ("rna", "dna")
        def struct(n):
            s = self.rand_struct(rng, n, pk_letters=rng.choice([0, 0, 1, 2, 4]), p_pair=rng.choice([0.3, 0.6, 0.85]))
            if rng.random() < 0.08: s = self.break_struct(rng, s)
            return s
        names = set()
        for i in range(nseq):
            nm = rs()
            while nm in names: nm = rs()
            names.add(nm)
            l = "sq i=%d name=%s seq=%s" % (i, hx(nm), hx(rows[i]))
            if haswgts: l += " wgt=" + dbits(rng.choice([0.5, 2.0, 1.0, rng.random() * 3, 1e-9]))
            if R.random() < 0.3: l += " acc=" + hx(rs())
            if R.random() < 0.3: l += " desc=" + hx(rs() + " " + rs())
            if R.random() < 0.3: l += " ss=" + hx(struct(alen))
            if R.random() < 0.2: l += " sa=" + hx(rs(alen, "0123456789."))
            if R.random() < 0.3: l += " pp=" + hx(rs(alen, "0123456789*."))
            ops.append(l)
        l = "col"
        if R.random() < 0.6: l += " ss_cons=" + hx(struct(alen))
        if R.random() < 0.2: l += " sa_cons=" + hx(rs(alen, "0123456789."))
        if R.random() < 0.3: l += " pp_cons=" + hx(rs(alen, "0123456789*."))
        if R.random() < 0.6: l += " rf=" + hx("".join(rng.choice("xX.-~_ACGU") if not allgap[c] or rng.random() < 0.3 else rng.choice(".-") for c in range(alen)))
        if R.random() < 0.2: l += " mm=" + hx(rs(alen, "m."))
        if rng.random() < 0.5: l += " name=" + hx(rs())
        if rng.random() < 0.3: l += " desc=" + hx(rs() + " " + rs())
        if rng.random() < 0.3: l += " acc=" + hx(rs())
        if rng.random() < 0.2: l += " au=" + hx(rs())
        if haswgts: l += " haswgts=1"
        if l != "col": ops.append(l)
        for k in range(6):
            if rng.random() < 0.15: ops.append("cut i=%d v=%s" % (k, fbits(rng.choice([25.0, 0.0, -3.5, rng.random() * 100]))))
        many = rng.random() < 0.04      # allocation boundaries of the unparsed markup (16 / 17 / 32 / 33 lines, many tags)
        for _ in range(rng.choice([15, 16, 17, 32, 33, 40]) if many else rng.choice([0, 0, 1, 2])): ops.append("comment v=" + hx(rs() + " " + rs()))
        for _ in range(rng.choice([15, 16, 17, 32, 33, 40]) if many and rng.random() < 0.7 else rng.choice([0, 0, 1, 3])): ops.append("gf tag=%s v=%s" % (hx(rs(2, string.ascii_uppercase)), hx(rs())))
        gstags = list(dict.fromkeys(rs(2, string.ascii_uppercase) for _ in range(rng.choice([4, 5, 6, 8]) if many else rng.choice([0, 0, 1, 2, 3]))))
        for t in gstags:
            for i in range(nseq):
                for _ in range(rng.choice([0, 1, 1, 2]) if rng.random() < 0.5 else 0): ops.append("gs tag=%s i=%d v=%s" % (hx(t), i, hx(rs())))
        for t in list(dict.fromkeys(rs(3) for _ in range(rng.choice([4, 5, 7]) if many else rng.choice([0, 0, 1, 2])))): ops.append("gc tag=%s v=%s" % (hx(t), hx(rs(alen))))
        grtags = list(dict.fromkeys(rs(3) for _ in range(rng.choice([4, 5, 6, 8]) if many else rng.choice([0, 0, 1, 2, 3]))))
        order = [(t, i) for t in grtags for i in range(nseq) if rng.random() < 0.5]
        rng.shuffle(order)
        for t, i in order: ops.append("gr tag=%s i=%d v=%s" % (hx(t), i, hx(rs(alen))))
        if alen == 0:      # zero columns: no aligned annotation (an empty line cannot be told from an absent one through the setters)
            import re
            ops = [re.sub(r" (ss|sa|pp|ss_cons|sa_cons|pp_cons|rf|mm)=-", "", o) for o in ops if not o.startswith(("gc ", "gr "))]
            ops = [o for o in ops if o != "col"]
        return mode, nseq, alen, rows, ops

    def rand_mask(self, rng, n):
        r = rng.random()
        if r < 0.1: return "1" * n
        if r < 0.15: return "0" * n
        p = rng.choice([0.1, 0.5, 0.9])
        return "".join("1" if rng.random() < p else "0" for _ in range(n))

    def msa_case(self, rng, idx, big=False, nseq_fix=None, alen_fix=None, steps=(1, 6), hist=False):
        """hist: a long history (>= 4 transformations of the same object, mode switches in between, the rarely chained operations
        ReasonableRF / SetDefaultWeights / ConvertDegen2X / SymConvert among them) at the allocation boundaries of the per-sequence arrays"""
        mode, nseq, alen, rows, ops = self.rand_alignment(rng, big, nseq_fix, alen_fix)
        sticky = len(ops)
        fk = rng.randrange(0, nseq) if rng.random() < 0.9 else rng.choice([nseq, nseq + 1, -1])
        ops += ["dump", "validate", "fetch i=%d" % fk]
        digital = False
        if mode != "text":
            ops += ["digitize abc=" + mode, "dump", "validate", "fetch i=%d" % fk]; digital = True
        def cmask(n_hint):
            m = self.rand_mask(rng, rng.choice([n_hint, n_hint, 1, 2, 3, 7, 13]) or 1)
            return (m or "1") + " cyc=1"
        for _ in range(rng.randrange(*steps)):
            r = rng.random()
            gaps = rng.choice(["-_.~", "-.", "-", "-_.~*", "".join(rng.sample("-_.~*xN", rng.randrange(1, 5)))])
            if hist and rng.random() < 0.25:
                q = rng.random()
                if q < 0.4:
                    lend = "" if digital else rng.choice(["", " abc=" + (mode if mode != "text" else rng.choice(["rna", "dna"]))])
                    ops += ["dump", "reasonablerf symfrac=" + dbits(rng.choice([0.5, 0.0, 1.0, 0.3, rng.random()])) + rng.choice(["", " cons=1" + lend])]
                elif q < 0.55: ops += ["defwgts", "dump", "validate"]
                elif q < 0.75 and digital: ops += ["degen2x", "dump", "validate"]
                elif q < 0.9 and not digital: ops += ["symconvert old=%s new=%s" % (hx(rng.choice(["-.", "_~", "acgu", "N"])), hx(rng.choice(["-", "."]))), "dump", "validate"]
                elif q < 0.95: ops += ["dump", "checksum", "hash", "uniq"]
                else: ops += ["dump", self.rand_setstr(rng, nseq), "dump", "validate"]
                continue
            if r < 0.03:
                ops += ["rbb mask=" + cmask(alen), "dump", "validate"]      # esl_msa_RemoveBrokenBasepairs called directly
            elif r < 0.2:
                ops += ["colsubset mask=" + cmask(alen), "dump", "validate"]
            elif r < 0.32:
                ops += ["minimgaps gaps=%s rf=%d" % (hx(gaps), rng.randrange(2)), "dump", "validate"]
            elif r < 0.4:
                ops += ["nogaps gaps=%s" % hx(gaps), "dump", "validate"]
            elif r < 0.48 and not digital:
                ops += ["minimgapstext gaps=%s rf=%d fix=%d" % (hx(gaps), rng.randrange(2), rng.randrange(2)), "dump", "validate"]
            elif r < 0.53 and not digital:
                ops += ["nogapstext gaps=%s fix=%d" % (hx(gaps), rng.randrange(2)), "dump", "validate"]
            elif r < 0.68:
                cm = cmask(nseq)
                if "1" not in cm.split()[0] and rng.random() < 0.9: cm = "1" + cm
                ops += ["seqsubset mask=" + cm, "dump w=b", "validate w=b", "dump"]
                if rng.random() < 0.5: ops += ["swap", "dump"]
            elif r < 0.76:
                ops += [rng.choice(["clone", "copy"]), "dump w=b", "validate w=b"]
                # mutate A afterwards: B must not follow
                ops += ["colsubset mask=" + cmask(alen), "dump", "dump w=b"]
            elif r < 0.84:
                if digital: ops += ["textize", "dump", "validate", "digitize abc=" + mode, "dump"]
                else:
                    ops += ["digitize abc=" + (mode if mode != "text" and rng.random() < 0.8 else rng.choice(["rna", "dna", "amino"])), "dump", "validate"]
                    if mode == "text" and not hist: break
                    if mode == "text": ops += ["textize", "dump", "validate"]
            elif r < 0.89:
                if mode in ("rna", "dna") and digital or rng.random() < 0.15: ops += ["revcomp", "dump", "validate", "revcomp", "dump"]
            elif r < 0.93:
                if digital: ops += ["flushleft", "dump", "validate"]
            elif r < 0.97:
                ops += ["markfrag t=" + fbits(rng.choice([0.5, 0.0, 1.0, 0.3, rng.random()])), "dump"]
            else:
                ops += ["markfragold t=" + dbits(rng.choice([0.5, 0.0, 1.0, 0.3, rng.random()])), "dump", "validate"]
            if ops[-1] != "fetch i=%d" % fk and rng.random() < 0.7:
                ops += ["dump", "fetch i=%d" % (fk if rng.random() < 0.8 else rng.randrange(0, nseq))]
                if rng.random() < 0.2: ops += ["fetch i=%d w=b" % rng.randrange(0, nseq)]
        return {"name": "msa%d" % idx, "ops": ops, "sticky": sticky}

    # ------------------------------------------------------------------ esl_msa_Compare / Checksum / Hash / symbol conversions
    def tweak(self, rng, mode, nseq, alen, rows, digital, ops=()):
        """one small edit of alignment A (ops), chosen to land on each side of every comparison esl_msa_Compare makes"""
        i = rng.randrange(nseq)
        r = rng.random()
        def rs(n=None, alpha=string.ascii_letters + string.digits):
            return "".join(rng.choice(alpha) for _ in range(n if n is not None else rng.randrange(1, 8)))
        if r < 0.10:
            cur = [o for o in ops if o.startswith("sq i=%d " % i) and " name=" in o]
            if cur and rng.random() < 0.6:      # a name that differs from the current one only at its end / by one appended character
                old = bytes.fromhex(cur[-1].split(" name=")[1].split()[0]).decode("latin-1")
                new = rng.choice([old + rs(1), old[:-1] + rs(1), old[:-1] or "q", old.swapcase()])
                return ["sq i=%d name=%s" % (i, hx(new or "q"))]
            return ["sq i=%d name=%s" % (i, hx(rs()))]
        if r < 0.30:
            base = rng.choice([1.0, 0.5, 2.0, 0.0, 1e-4, 0.002, -1.0, 3.25])
            eps = rng.choice([0.0, 1e-4, 5e-4, 9.9e-4, 1.01e-3, 2e-3, 1e-2, -9.9e-4, -1.01e-3])
            v = rng.choice([base * (1 + eps), base * (1 + eps), float("inf"), float("-inf"), float("nan"), 0.0, -0.0, 0.00099, 0.00101, -base])
            return ["sq i=%d wgt=%s" % (i, dbits(v))]
        if r < 0.40 and not digital and alen:
            row = list(rows[i]); k = rng.randrange(alen); row[k] = rng.choice("ACGUacgu-.~" + chr(rng.choice([0x80, 0xff, 0xc3])))
            rows[i] = "".join(row)
            return ["sq i=%d seq=%s" % (i, hx(rows[i]))]
        if r < 0.50:
            f = rng.choice(["name", "desc", "acc", "au"]); return ["col %s=%s" % (f, hx(rs()))]
        if r < 0.58:
            f = rng.choice(["ss_cons", "sa_cons", "pp_cons", "rf", "mm"]); return ["col %s=%s" % (f, hx(rs(alen, ".:x<>")))] if alen else []
        if r < 0.68: return ["clr f=" + rng.choice(["name", "desc", "acc", "au", "ss_cons", "sa_cons", "pp_cons", "rf", "mm"])]
        if r < 0.80:
            base = rng.choice([25.0, 0.0, -3.5, 100.0, 0.005, 0.02])
            eps = rng.choice([0.0, 1e-3, 5e-3, 9.9e-3, 1.01e-2, 2e-2, -9.9e-3, -1.01e-2])
            v = rng.choice([base * (1 + eps), base * (1 + eps), float("inf"), float("nan"), 0.0, 0.0099, 0.0101, -base])
            return ["cut i=%d v=%s" % (rng.randrange(6), fbits(v))]
        if r < 0.85: return ["clrcut i=%d" % rng.randrange(6)]
        if r < 0.93:
            f = rng.choice(["acc", "desc", "ss", "sa", "pp"])
            return ["sq i=%d %s=%s" % (i, f, hx(rs(alen if f in ("ss", "sa", "pp") else None, "._:" if f != "acc" else string.ascii_uppercase)))] if alen else []
        # unparsed markup: esl_msa_Compare must not look at it
        return [rng.choice(["comment v=" + hx(rs()), "gf tag=%s v=%s" % (hx(rs(2)), hx(rs())), "gc tag=%s v=%s" % (hx(rs(3)), hx(rs(alen))),
                            "gs tag=%s i=%d v=%s" % (hx(rs(2)), i, hx(rs())), "gr tag=%s i=%d v=%s" % (hx(rs(3)), i, hx(rs(alen)))])]

    def cmp_case(self, rng, idx):
        mode, nseq, alen, rows, ops = self.rand_alignment(rng, False)
        sticky = len(ops)
        digital = False
        if mode != "text" and rng.random() < 0.6: ops += ["digitize abc=" + mode]; digital = True
        if rng.random() < 0.15:     # a duplicated sequence name (esl_msa_Hash / CheckUniqueNames)
            k = rng.randrange(nseq); ops += ["sq i=%d name=%s" % (k, hx("dupname")), "sq i=%d name=%s" % (rng.randrange(nseq), hx("dupname"))]
        ops += ["dump", "checksum", "hash", "uniq", "hash"]
        ops += [rng.choice(["clone", "copy"]), "dump w=b", "compare", "checksum w=b"]
        for _ in range(rng.randrange(1, 5)):
            r = rng.random()
            if r < 0.7:
                t = self.tweak(rng, mode, nseq, alen, rows, digital, ops) if rng.random() < 0.8 else ["dump", self.rand_setstr(rng, nseq)]
                if not t: continue
                ops += t + ["dump", "compare", "cmpmand", "cmpopt", "checksum"]
                if rng.random() < 0.3: ops += ["swap", "dump", "dump w=b", "compare"]      # the comparison in the other direction
                if rng.random() < 0.3: ops += [rng.choice(["clone", "copy"]), "dump w=b", "compare"]
            elif r < 0.8:
                cm = self.rand_mask(rng, nseq)
                if rng.random() < 0.5 or "1" not in cm: cm = "1" * nseq
                ops += ["seqsubset mask=" + cm, "dump w=b", "dump", "compare", "cmpmand", "checksum w=b", "uniq w=b"]
            elif r < 0.88: ops += ["defwgts", "dump", "validate", "compare"]
            elif r < 0.94 and digital: ops += ["degen2x", "dump", "compare", "checksum", "degen2x", "dump"]
            elif not digital:
                olds = "".join(rng.sample("ACGUacgu-._~Nn", rng.randrange(1, 6)))
                news = rng.choice(["".join(rng.choice("acguACGU-.xX") for _ in olds), rng.choice("-.xN"), "ab" + "c" * len(olds), olds.upper()])
                if rng.random() < 0.1: olds = olds + olds[0]          # a repeated old symbol: strchr finds the first
                ops += ["symconvert old=%s new=%s" % (hx(olds), hx(news)), "dump", "compare", "checksum"]
            if rng.random() < 0.25:
                ops += ["dump", "reasonablerf symfrac=" + dbits(rng.choice([0.5, 0.0, 1.0, 0.3, 0.75, rng.random(), 1.5, -1.0]))
                        + self.rf_cons_arg(rng, mode, digital)]
        return {"name": "cmp%d" % idx, "ops": ops, "sticky": sticky}

    def rf_cons_arg(self, rng, mode, digital):
        """useconsseq for esl_msa_ReasonableRF: digital: the alignment's own alphabet; text: no alphabet (eslEINVAL, 0c757a4) or an
        alphabet lent by the caller (only one every letter of the rows belongs to: the rows were drawn from <mode>'s symbols)"""
        if rng.random() >= 0.6: return ""
        if digital or mode == "text" or rng.random() < 0.25: return " cons=1"
        return " cons=1 abc=" + mode

    def sq_case(self, rng, idx):
        """esl_sq.c conversions of a sequence taken from an alignment: Digitize / Textize / ReverseComplement / ConvertDegen2X"""
        mode, nseq, alen, rows, ops = self.rand_alignment(rng, False)
        sticky = len(ops)
        digital = mode != "text" and rng.random() < 0.5
        if digital: ops += ["digitize abc=" + mode]
        k = rng.randrange(nseq)
        has_xr = False
        ops += ["dump", "fetch i=%d keep=1" % k, "sqdump"]
        for _ in range(rng.randrange(1, 6)):
            r = rng.random()
            if r < 0.3: ops += ["sqdigitize abc=" + (mode if mode != "text" and rng.random() < 0.8 else rng.choice(["rna", "dna", "amino"])), "sqdump"]
            elif r < 0.55: ops += ["sqtextize", "sqdump"]
            elif r < 0.8:
                if not has_xr: ops += ["sqrevcomp", "sqdump"]; 
                if not has_xr and rng.random() < 0.6: ops += ["sqrevcomp", "sqdump"]
            else: ops += ["sqdegen2x", "sqdump"]
        return {"name": "sq%d" % idx, "ops": ops, "sticky": sticky}

    def wuss_case(self, rng, idx, maxlen):
        ops = []
        for _ in range(rng.randrange(1, 6)):
            n = rng.choice([0, 1, 2, 5, 20, rng.randrange(0, 100), rng.randrange(0, maxlen + 1)])
            s = self.rand_struct(rng, n, pk_letters=rng.choice([0, 1, 3, 8, 30]), p_pair=rng.choice([0.3, 0.7, 0.9]))
            if rng.random() < 0.06:      # families that exhaust the pseudoknot letters of esl_ct2wuss (rb[] bounds)
                k = rng.choice([24, 25, 26, 27, 28, 30])
                if rng.random() < 0.5:
                    L = rng.choice("ABZ"); s = ("<" + L + ">" + rng.choice(["", ":", "__"])) * k + L.lower() * k
                else:
                    ls = string.ascii_uppercase[:min(k, 26)]
                    s = "<" + ls + ">" + ":" * rng.randrange(3) + "<A>a" * rng.randrange(1, 3) + ls.lower()
            if rng.random() < 0.3: s = self.break_struct(rng, s)
            if rng.random() < 0.05: s = "".join(rng.choice("<>()[]{}AaBbCc:,_-.~") for _ in range(n))
            r = rng.random()
            if r < 0.35: ops.append("roundtrip ss=" + hx(s))
            elif r < 0.45: ops.append("wuss2ct ss=" + hx(s))
            elif r < 0.55: ops.append("wussfull ss=%s inplace=%d" % (hx(s), rng.randrange(2)))
            elif r < 0.62: ops.append("wussrev ss=%s inplace=%d" % (hx(s), rng.randrange(2)))
            elif r < 0.67: ops.append("nopseudo ss=%s inplace=%d" % (hx(s), rng.randrange(2)))
            elif r < 0.72: ops.append("wuss2kh ss=%s inplace=%d" % (hx(s), rng.randrange(2)))
            elif r < 0.76: ops.append("kh2wuss ss=%s inplace=%d" % (hx(s.replace("<", "\0").replace(">", "<").replace("\0", ">")), rng.randrange(2)))
            elif r < 0.9: ops.append("rbbss ss=%s mask=%s" % (hx(s), self.rand_mask(rng, len(s)) or "-"))
            elif r < 0.94:
                # a random symmetric pair table, not derived from any string: arbitrary crossings, up to > 26 pseudoknotted pairs
                m = rng.choice([0, 1, 2, 6, 12, 40, rng.randrange(0, 80), rng.randrange(0, 80), min(maxlen, rng.choice([150, 300, 1000, 2000]))])
                k = rng.choice([0, 1, 2, 3, m // 4, m // 2])
                pos = list(range(1, m + 1)); rng.shuffle(pos)
                ct = [0] * (m + 1)
                for t in range(min(k, m // 2)):
                    a, b = pos[2 * t], pos[2 * t + 1]; ct[a] = b; ct[b] = a
                if rng.random() < 0.3 and m >= 6:      # helices: runs of stacked pairs crossing each other
                    ct = [0] * (m + 1); free = list(range(1, m + 1))
                    for _h in range(rng.randrange(1, 5)):
                        if len(free) < 4: break
                        a = rng.choice(free[:len(free) // 2]); b = rng.choice(free[len(free) // 2:])
                        while a < b and ct[a] == 0 and ct[b] == 0 and rng.random() < 0.8:
                            ct[a] = b; ct[b] = a; a += 1; b -= 1
                            if rng.random() < 0.15: a += 1      # a bulge
                        free = [x for x in free if ct[x] == 0]
                ops.append("%s ct=%s" % (rng.choice(["ct2wuss", "ct2simple"]), ",".join(map(str, ct[1:])) or "-"))
            else:
                p = wuss_pairs(s)
                if p is None: ops.append("wuss2ct ss=" + hx(s)); continue
                ct = [0] * (len(s) + 1)
                for i, j in p: ct[i + 1] = j + 1; ct[j + 1] = i + 1
                ops.append("%s ct=%s" % (rng.choice(["ct2wuss", "ct2simple"]), ",".join(map(str, ct[1:])) or "-"))
        return {"name": "wuss%d" % idx, "ops": ops, "sticky": 0}

    def wuss_edge_case(self, rng, idx):
        """odd and even lengths for every WUSS routine, pairing symbols at the first, the last and the exact centre column; every
        routine applied ONCE to the same string (exact comparison with the model, pair monitors), then esl_msa_ReverseComplement on an
        alignment carrying the string as SS_cons and as per-sequence SS (dump after the single application)"""
        n = rng.choice([1, 2, 3, 4, 5, 6, 7, 8, 9, 10, 11, 15, 16, 17, 31, 32, 33, 63, 64, 65, 127, 128, 129, rng.randrange(1, 40), rng.randrange(1, 200)])
        def build():
            s = [rng.choice(":,_-.~") for _ in range(n)]
            spots = [0, n - 1, n // 2, (n - 1) // 2, n // 2 - 1 if n >= 2 else 0, n // 2 + 1 if n // 2 + 1 < n else n - 1]
            spots = list(dict.fromkeys(x for x in spots if 0 <= x < n))
            rng.shuffle(spots)
            free = [i for i in range(n)]
            kinds = ["<>", "()", "[]", "{}", "Aa", "Bb", "Zz"]
            style = rng.random()
            for sp in spots[:rng.randrange(1, len(spots) + 1)]:
                if s[sp] not in ":,_-.~": continue
                k = rng.choice(kinds)
                if style < 0.75:      # balanced: give the spot a partner
                    cand = [i for i in range(n) if i != sp and s[i] in ":,_-.~"]
                    if not cand: s[sp] = rng.choice(k); continue
                    o = rng.choice([c for c in cand if c in spots] or cand) if rng.random() < 0.5 else rng.choice(cand)
                    a, b = min(sp, o), max(sp, o)
                    s[a], s[b] = k[0], k[1]
                else: s[sp] = rng.choice(k)      # a lone pairing symbol: unbalanced
            return "".join(s)
        s = build()
        if rng.random() < 0.3:
            t = self.rand_struct(rng, n, pk_letters=rng.choice([0, 1, 3]), p_pair=0.9)
            c = n // 2
            if t[c] in ":,_-.~" and n >= 3: t = s
            s = t
        kh = s.replace("<", "\0").replace(">", "<").replace("\0", ">")
        ops = ["wussrev ss=%s inplace=0" % hx(s), "wussrev ss=%s inplace=1" % hx(s), "nopseudo ss=%s inplace=%d" % (hx(s), rng.randrange(2)),
               "wussfull ss=%s inplace=%d" % (hx(s), rng.randrange(2)), "wuss2kh ss=%s inplace=%d" % (hx(s), rng.randrange(2)),
               "kh2wuss ss=%s inplace=%d" % (hx(kh), rng.randrange(2)), "wuss2ct ss=" + hx(s), "roundtrip ss=" + hx(s),
               "rbbss ss=%s mask=%s" % (hx(s), self.rand_mask(rng, n) or "-")]
        p = wuss_pairs(s)
        if p is not None:
            ct = [0] * (n + 1)
            for i, j in p: ct[i + 1] = j + 1; ct[j + 1] = i + 1
            ops += ["ct2wuss ct=" + (",".join(map(str, ct[1:])) or "-"), "ct2simple ct=" + (",".join(map(str, ct[1:])) or "-")]
        rng.shuffle(ops)
        s2 = build()
        nseq = rng.choice([1, 2, 3])
        ops += ["new nseq=%d alen=%d" % (nseq, n)]
        for i in range(nseq):
            ops.append("sq i=%d seq=%s%s" % (i, hx("".join(rng.choice("ACGU-") for _ in range(n))), " ss=" + hx(s2 if i else s) if rng.random() < 0.7 else ""))
        ops += ["col ss_cons=" + hx(s), "digitize abc=" + rng.choice(["rna", "dna"]), "dump", "revcomp", "dump", "validate", "revcomp", "dump"]
        return {"name": "wedge%d" % idx, "ops": ops, "sticky": 0}

    def corpus(self, ctx):
        c = [
            # regression: once read rb[26] (fixed by c4d52a3); must be eslEINVAL "not enough letters", never a fault
            {"name": "rb-witness", "ops": ["roundtrip ss=" + hx(RB_WITNESS), "rbbss ss=%s mask=%s" % (hx(RB_WITNESS), "1" * len(RB_WITNESS)),
                                           "roundtrip ss=" + hx("<A>" * 27 + "a" * 27), "roundtrip ss=" + hx("<A>" * 26 + "a" * 26)], "sticky": 0},
            {"name": "rb-witness-msa", "ops": ["new nseq=1 alen=59", "sq i=0 seq=" + hx("ACGU" * 14 + "ACG"), "col ss_cons=" + hx(RB_WITNESS), "digitize abc=rna",
                                               "colsubset mask=1 cyc=1", "dump", "validate"], "sticky": 4},
            {"name": "rnasep", "ops": ["roundtrip ss=" + hx("{{{{{{{{{{{{{{{{{{,<<<<<<<<<<<<<-<<<<<____>>>>>>>>>->>>>>>>>>,,,,AAA-AAAAA[[[[---BBBB-[[[[[<<<<<_____>>>>><<<<____>>>->(((---(((((,,,,,,,,,,,,<<<<<--<<<<<<<<____>>>>>->>>>>>-->>,,,,,,,<<<<<<_____>>>>>>,,,,,,,,,<<<<__>>>>,,,,<<<<<<<<____>>>>>>>>,,,,,,,)))))--))))]]]]]]]]]]]],,,<<<<------<<<<<<----<<<<<_bbbb>>>>>>>>>>>----->>>>,,,,,,<<<<<<<<____>>>>>>>>,,,,aaaaaaaa----------}}}}}}}}}}}}}}}}}}:::")], "sticky": 0},
            {"name": "pk-nested-letters", "ops": ["roundtrip ss=" + hx("<A>:<A>:<A>aaa"), "roundtrip ss=" + hx("<<A>>a<B>b"), "roundtrip ss=" + hx("AaAa"), "roundtrip ss=" + hx("<(>)"), "roundtrip ss=" + hx("<a>A")], "sticky": 0},
            # regression (fixed by 945fd6c): esl_msa_ReasonableRF(useconsseq=FALSE) on a digital alignment once stored through counts == NULL
            {"name": "reasonablerf-digital-witness", "ops": ["new nseq=2 alen=4", "sq i=0 seq=" + hx("AC-U"), "sq i=1 seq=" + hx("A--U"), "digitize abc=rna", "dump",
                                                             "reasonablerf symfrac=" + dbits(0.5)], "sticky": 4},
            # regression (fixed by c71354f): esl_sq_ReverseComplement once freed xr[] but kept nxr > 0 (NULL deref in esl_sq_Destroy)
            {"name": "sq-revcomp-xr-witness", "ops": ["new nseq=1 alen=4", "sq i=0 seq=" + hx("AC-U"), "gr tag=" + hx("CSA") + " i=0 v=" + hx("12.4"), "dump", "fetch i=0 keep=1", "sqrevcomp", "sqdump"],
             "sticky": 3},
            # regression (fixed by 0c757a4): esl_msa_ReasonableRF(text alignment, symfrac, useconsseq=TRUE, rf) once dereferenced msa->abc == NULL;
            # with a caller-supplied alphabet its text branch wrote rfline[apos-1] and never reset counts[] between columns
            {"name": "reasonablerf-text-consseq-witness", "ops": ["new nseq=2 alen=4", "sq i=0 seq=" + hx("ACGU"), "sq i=1 seq=" + hx("AC-U"), "dump",
                                                                 "reasonablerf symfrac=" + dbits(0.5) + " cons=1"], "sticky": 3},
            {"name": "reasonablerf-text-consseq-lent", "ops": ["new nseq=3 alen=5", "sq i=0 seq=" + hx("ACGU-"), "sq i=1 seq=" + hx("gC-Un"), "sq i=2 seq=" + hx("gc.y~"), "dump",
                                                              "reasonablerf symfrac=" + dbits(0.5) + " cons=1 abc=rna", "reasonablerf symfrac=" + dbits(0.0) + " cons=1 abc=rna",
                                                              "reasonablerf symfrac=" + dbits(1.0) + " cons=1 abc=dna", "reasonablerf symfrac=" + dbits(0.5) + " cons=1 abc=amino",
                                                              "reasonablerf symfrac=" + dbits(0.5) + " cons=0 abc=rna", "digitize abc=rna", "dump", "reasonablerf symfrac=" + dbits(0.5) + " cons=1",
                                                              "textize", "dump", "reasonablerf symfrac=" + dbits(0.5) + " cons=1", "reasonablerf symfrac=" + dbits(0.5) + " cons=1 abc=rna"], "sticky": 4},
            # regression (fixed by 5db1eba): erasing a description that was never there once allocated an empty sqdesc[] (esl_msa_Compare with the
            # identical clone then failed); the Format twins never freed the emptied array
            {"name": "setseq-null-erasure-witness", "ops": ["new nseq=2 alen=4", "sq i=0 seq=" + hx("ACGU"), "sq i=1 seq=" + hx("AC-U"), "clone", "setstr f=sqdesc i=0 v=~ n=-1",
                                                           "dump", "dump w=b", "compare", "setstr f=sqacc i=1 v=~ n=-1", "dump", "compare",
                                                           "fmtstr f=sqdesc i=1 v=" + hx("x") + " k=1", "fmtstr f=sqdesc i=1 v=~", "dump", "compare", "fmtstr f=sqacc i=0 v=" + hx("y") + " k=2", "fmtstr f=sqacc i=0 v=~",
                                                           "dump", "compare"], "sticky": 4},
            {"name": "setstr-basics", "ops": ["new nseq=2 alen=4", "sq i=0 seq=" + hx("ACGU"), "sq i=1 seq=" + hx("AC-U"), "dump", "setstr f=name v=" + hx("family one") + " n=6", "dump",
                                             "setstr f=sqname i=1 v=" + hx("seqB") + " n=-1", "dump", "setstr f=sqname i=2 v=" + hx("x") + " n=-1", "dump", "setstr f=sqname i=0 v=~ n=-1", "dump",
                                             "fmtstr f=sqname i=2 v=" + hx("x") + " k=1", "dump", "fmtstr f=sqacc i=1 v=" + hx("AC") + " k=-7", "dump", "fmtstr f=desc v=" + hx("d") + " k=0", "dump",
                                             "setstr f=desc v=~ n=-1", "dump", "setstr f=sqdesc i=0 v=" + hx("hello world") + " n=5", "dump", "setstr f=sqdesc i=1 v=" + hx("") + " n=0", "dump", "validate"], "sticky": 3},
            {"name": "sq-basics", "ops": ["new nseq=1 alen=6", "sq i=0 seq=" + hx("AC-UnX") + " ss=" + hx("<.>..."), "dump", "fetch i=0 keep=1", "sqdump", "sqrevcomp", "sqdump", "sqrevcomp", "sqdump",
                                          "sqdigitize abc=rna", "sqdump", "sqdegen2x", "sqdump", "sqrevcomp", "sqdump", "sqtextize", "sqdump", "sqdigitize abc=amino", "sqdump", "sqrevcomp", "sqdump"], "sticky": 2},
            {"name": "compare-basics", "ops": ["new nseq=2 alen=3", "sq i=0 seq=" + hx("ACG") + " wgt=" + dbits(1.0), "sq i=1 seq=" + hx("A-G") + " wgt=" + dbits(2.0), "col name=" + hx("x") + " haswgts=1",
                                               "cut i=0 v=" + fbits(25.0), "dump", "clone", "dump w=b", "compare", "sq i=1 wgt=" + dbits(2.0019), "dump", "compare", "sq i=1 wgt=" + dbits(2.0021), "dump", "compare",
                                               "sq i=1 wgt=" + dbits(2.0), "cut i=0 v=" + fbits(25.2), "dump", "compare", "cut i=0 v=" + fbits(25.3), "dump", "compare", "cut i=0 v=" + fbits(25.0), "gf tag=" + hx("AA") + " v=" + hx("zz"),
                                               "dump", "compare", "clr f=name", "dump", "compare", "cmpmand", "cmpopt", "checksum", "hash", "uniq", "reasonablerf symfrac=" + dbits(0.5)], "sticky": 5},
        ]
        return c

    def cases(self, ctx):
        rng = ctx.rng
        quick = ctx.tier == "quick"
        out = []
        n_msa = 5000 if quick else 60000
        n_wuss = 1500 if quick else 30000
        for i in range(n_msa): out.append(self.msa_case(rng, i, big=(i % 5 == 0)))
        for i in range(n_wuss): out.append(self.wuss_case(rng, i, 300 if (quick and i % 6) else 2000))
        for i in range(1500 if quick else 20000): out.append(self.cmp_case(rng, i))
        for i in range(1000 if quick else 15000): out.append(self.sq_case(rng, i))
        for i in range(600 if quick else 10000): out.append(self.wuss_edge_case(rng, i))
        for i in range(300 if quick else 5000): out.append(self.sample_case(rng, i))
        for i in range(300 if quick else 4000): out.append(self.grow_case(rng, i))
        for i in range(400 if quick else 6000):
            c = self.msa_case(rng, i, nseq_fix=rng.choice([1, 2, 15, 16, 17, 31, 32, 33, 33]), alen_fix=rng.choice([0, 1, 1, 2, 3, 5, 9, 16, 17]), steps=(4, 10), hist=True)
            c["name"] = "hist%d" % i; out.append(c)
        hist = {}
        for c in out:
            for o in c["ops"]:
                k = o.split()[0]
                if k not in ("new", "comment", "gf", "gs", "gc", "gr", "dump", "validate"): hist[k] = hist.get(k, 0) + 1
        self._hist = hist
        return out

    # ------------------------------------------------------------------ monitors
    def nontrivial(self, case, out):
        return len(out) >= 2 and sum(1 for l in out if l.startswith("ok")) >= 2 and not any(l.startswith(("fault", "atexit")) for l in out)

    def monitor(self, ctx, case, out):
        ops = case["ops"]
        for l in out:
            if l.startswith(("fault ", "atexit ")):
                return Failure("fault", "implementation died: " + l)
        if len(out) != len(ops):
            return Failure("monitor", "harness answered %d lines for %d ops" % (len(out), len(ops)))
        A = B = None      # last parsed dumps of slot A / B
        freshA = freshB = False      # is that dump the current content of the slot
        sqst = {"cur": None, "pend": None}      # last sqdump of the kept sequence, pending conversion
        prevA = None
        pending = None    # (op words, dump of A before)
        pendset = None    # a Set* / Format* call waiting for the next dump of A
        sampled = None    # arguments of an esl_msa_Sample call waiting for the next dump of A
        for op, l in zip(ops, out):
            w = op.split(); kv = dict(x.split("=", 1) for x in w[1:] if "=" in x)
            name = w[0]
            if name == "dump":
                d = Dump(l)
                if not d.ok: continue
                wf = d.wellformed()
                if wf: return Failure("monitor", "after %r the alignment is not well formed: %s" % (pending[0] if pending else "construction", wf))
                if kv.get("w") == "b":
                    B = d; freshB = True
                    f = self.check_b(pending, A, B)
                else:
                    f = self.check_a(pending, A, d, l)
                    if not f and pendset: f = self.check_setstr(pendset, l)
                    pendset = None
                    if not f and sampled: f = self.check_sample(sampled, d)
                    sampled = None
                    prevA, A = A, d; freshA = True
                    A.line = l
                    if pending and pending[0][0] not in ("seqsubset", "clone", "copy", "markfrag"): pending = None
                if f: return f
            elif name == "markfrag" and l.startswith("ok frag=") and A is not None:
                f = self.check_markfrag(A, kv["t"], l[8:])
                if f: return f
            elif name == "fetch":
                cur = B if kv.get("w") == "b" else A
                f = self.check_fetch(cur, int(kv["i"]), l)
                if f: return f
            elif name == "validate":
                if l not in ("ok", "nomsa"): return Failure("monitor", "esl_msa_Validate fails after %r: %s" % (pending[0] if pending else "construction", l))
            elif name == "swap":
                if l != "ok": continue
                A, B = B, A; pending = None; freshA, freshB = freshB, freshA
                if A is not None and not hasattr(A, "line"): A.line = None
            elif name == "grow":
                f = self.check_grow(kv, l)
                if f: return f
            elif name == "expand":
                if l not in ("einval exception", "bad-op"): return Failure("monitor", "esl_msa_Expand on an alignment that is not growable (alen >= 0) must throw eslEINVAL: " + l)
            elif name == "sample":
                freshA = False; pending = None; pendset = None
                if l != "ok": return Failure("monitor", "esl_msa_Sample failed: " + l)
                sampled = kv
            elif name in ("setstr", "fmtstr"):
                pendset = (name, kv, l, A.line if (freshA and A is not None and A.ok and not pendset) else None, A.nseq if A is not None and A.ok else None)
                freshA = False; pending = None
            elif name in ("new", "sq", "col", "cut", "comment", "gf", "gs", "gc", "gr", "clr", "clrcut"):
                freshA = False; pending = None; pendset = None
            elif name in ("compare", "cmpmand", "cmpopt"):
                if l == "bad-op": continue
                if "repinv=ok" not in l: return Failure("monitor", "an optional per-sequence array is allocated but empty (model assumption of esl_msa_Compare broken): " + l)
                if freshA and freshB and A is not None and B is not None and A.ok and B.ok:
                    mand, opt = spec_compare(A, B, name)
                    want = {"compare": mand and opt, "cmpmand": mand, "cmpopt": opt}[name]
                    got = l.split()[0]
                    if got not in ("ok", "fail") or (got == "ok") != want:
                        return Failure("monitor", "esl_msa_%s returned %s although the two alignments are %s in the fields it documents"
                                       % ({"compare": "Compare", "cmpmand": "CompareMandatory", "cmpopt": "CompareOptional"}[name], got, "equal" if want else "different"))
            elif name == "checksum":
                cur, fresh = (B, freshB) if kv.get("w") == "b" else (A, freshA)
                if l == "nomsa" or cur is None or not fresh or not cur.ok: continue
                if l != "ok sum=%08x" % spec_checksum(cur): return Failure("monitor", "esl_msa_Checksum: %s, the documented hash of the aligned residues is %08x" % (l, spec_checksum(cur)))
            elif name in ("hash", "uniq"):
                cur, fresh = (B, freshB) if kv.get("w") == "b" else (A, freshA)
                if l == "nomsa" or cur is None or not fresh or not cur.ok: continue
                uniq = len(set(x["name"] for x in cur.sq)) == cur.nseq
                want = "ok" if uniq else ("edup" if name == "hash" else "fail")
                if l != want: return Failure("monitor", "esl_msa_%s: %s on an alignment whose names are %s" % ("Hash" if name == "hash" else "CheckUniqueNames", l, "unique" if uniq else "not unique"))
            elif name == "fetch" and False: pass
            elif name in ("sqdump", "sqdigitize", "sqtextize", "sqrevcomp", "sqdegen2x"):
                f = self.check_sq(name, kv, l, sqst)
                if f: return f
            elif name == "reasonablerf":
                if A is None or not freshA or not A.ok: continue
                f = self.check_rf(A, kv["symfrac"], l, kv.get("cons") == "1", kv.get("abc"))
                if f: return f
            elif name in ("colsubset", "minimgaps", "minimgapstext", "nogaps", "nogapstext", "seqsubset", "clone", "copy", "digitize",
                          "textize", "revcomp", "flushleft", "markfrag", "markfragold", "rbb", "degen2x", "symconvert", "defwgts"):
                pending = (w, kv, l, A if freshA else None)
                if name in ("seqsubset", "clone", "copy"): freshB = False
                elif name != "markfrag": freshA = False
            else:
                f = self.check_wuss(name, kv, l)
                if f: return f
        return None

    def needs_many_letters(self, ss):
        """True when the structure has at least 27 pseudoknotted pairs (i, j) - pairs with some pair (a, b), a < i < b < j -
        which by theorem ct2wuss_fails_needs_27 is necessary for esl_ct2wuss to run out of letters"""
        return self.many_pk_pairs(wuss_pairs(ss) or set())

    @staticmethod
    def many_pk_pairs(p):
        return sum(1 for (i, j) in p if any(a < i < b < j for (a, b) in p)) >= 27

    def check_wuss(self, name, kv, l):
        ss = unhx(kv.get("ss", "~"))
        if name in ("wuss2ct", "roundtrip"):
            spec = wuss_pairs(ss)
            parts = l.split()
            if spec is None:
                if parts[0] != "esyntax": return Failure("monitor", "esl_wuss2ct accepted an unbalanced/illegal WUSS string %r: %s" % (ss, l[:80]))
                return None
            if parts[0] != "ok": return Failure("monitor", "esl_wuss2ct rejected a balanced WUSS string %r: %s" % (ss, l[:80]))
            cts = [p for p in parts if p.startswith("ct=")]
            def pairs_of(tok):
                v = tok[3:]; ct = [0] + ([int(x) for x in v.split(",")] if v != "-" else [])
                pr = set()
                for i in range(1, len(ct)):
                    if ct[i]:
                        if not (1 <= ct[i] < len(ct)) or ct[ct[i]] != i or ct[i] == i: return None
                        if i < ct[i]: pr.add((i - 1, ct[i] - 1))
                return pr
            p1 = pairs_of(cts[0])
            if p1 != spec: return Failure("monitor", "esl_wuss2ct pair table is not the set of matched pairs of %r" % ss)
            if name == "roundtrip":
                if len(parts) >= 3 and parts[2] == "ok":
                    if len(cts) < 2 or pairs_of(cts[1]) != spec:
                        return Failure("monitor", "wuss->ct->wuss->ct does not preserve the set of pairs of %r: %s" % (ss, l[-200:]))
                elif parts[2:4] == ["einval", "exception"] and self.needs_many_letters(ss):
                    return None      # documented: a pair table whose greedy lettering needs more than A..Z is refused with eslEINVAL
                else:
                    return Failure("monitor", "esl_ct2wuss fails on the pair table of a balanced WUSS string %r: %s" % (ss, " ".join(parts[2:4])))
        elif name == "rbbss":
            spec = wuss_pairs(ss)
            mask = kv["mask"] if kv["mask"] != "-" else ""
            parts = l.split()
            if spec is None: return None if parts[0] == "esyntax" else Failure("monitor", "RemoveBrokenBasepairsFromSS accepted bad SS %r" % ss)
            want = set((i, j) for i, j in spec if mask[i] == "1" and mask[j] == "1")
            if parts[0:2] == ["einval", "exception"] and self.many_pk_pairs(want): return None     # documented limit of esl_ct2wuss (A..Z), on the RETAINED pairs
            if parts[0] != "ok": return Failure("monitor", "RemoveBrokenBasepairsFromSS failed on balanced SS %r: %s" % (ss, l[:60]))
            got = wuss_pairs(unhx(parts[-1][3:]))
            if got != want: return Failure("monitor", "after RemoveBrokenBasepairsFromSS the pairs are not the original pairs with both partners kept (ss %r mask %s)" % (ss, mask))
        elif name in ("ct2wuss", "ct2simple"):
            # theorems ct2wuss_total / ct2simplewuss_total / *_ok_of_few_pk restated on the implementation's own output
            v = kv.get("ct", "-"); ct = [0] + ([int(x) for x in v.split(",")] if v != "-" else [])
            n = len(ct) - 1
            sym = all((c == 0) or (1 <= c <= n and c != i and ct[c] == i) for i, c in enumerate(ct))
            if not sym: return None
            want = set((i - 1, ct[i] - 1) for i in range(1, n + 1) if ct[i] > i)
            parts = l.split()
            if parts[0] == "ok":
                got = wuss_pairs(unhx(parts[-1][3:]) if parts[-1].startswith("ss=") else b"")
                if got != want: return Failure("monitor", "%s: the string written does not spell the pair table %s" % (name, v[:120]))
                if len(unhx(parts[-1][3:]) or b"") != n: return Failure("monitor", "%s: wrong length" % name)
            elif parts[0:2] == ["einval", "exception"] and self.many_pk_pairs(want): return None
            else: return Failure("monitor", "%s fails (%s) on a symmetric pair table with fewer than 27 pseudoknotted pairs: %s" % (name, " ".join(parts[:2]), v[:120]))
        elif name == "wuss2kh":
            if l.startswith("ok ss=") and wuss_pairs(ss) is not None:      # theorem kh_roundtrip_pairs, on the implementation's KH string
                kh = (unhx(l[6:]) or b"").decode("latin-1")
                back = kh.replace("<", "\0").replace(">", "<").replace("\0", ">").replace(" ", ".")
                if wuss_pairs(back) != wuss_pairs(ss): return Failure("monitor", "esl_wuss2kh: the KH string %r, read back, does not spell the pairs of %r" % (kh, ss))
        elif name == "wussrev":
            if l.startswith("ok ss="):
                r = unhx(l[6:]); a, b = wuss_pairs(ss), wuss_pairs(r); n = len(ss)
                if (a is None) != (b is None) or (a is not None and set((n - 1 - j, n - 1 - i) for i, j in a) != b):
                    return Failure("monitor", "esl_wuss_reverse does not mirror the pairs of %r" % ss)
        elif name == "wussfull":
            if l.startswith("ok ss="):
                r = unhx(l[6:])
                if wuss_pairs(r) != wuss_pairs(ss): return Failure("monitor", "esl_wuss_full changes the pairs of %r" % ss)
            elif wuss_pairs(ss) is not None:      # theorem wussFull_total: it cannot fail on a balanced string
                return Failure("monitor", "esl_wuss_full fails (%s) on the balanced WUSS string %r" % (l[:40], ss))
        elif name == "nopseudo":
            if l.startswith("ok ss=") and wuss_pairs(ss) is not None:      # theorem wussNopseudo_pairs
                r = unhx(l[6:]) or b""; s_ = ss.decode("latin-1") if isinstance(ss, bytes) else ss
                want = set((i, j) for i, j in wuss_pairs(ss) if not s_[i].isalpha())
                if wuss_pairs(r) != want: return Failure("monitor", "esl_wuss_nopseudo does not remove exactly the pseudoknot-letter pairs of %r" % ss)
        return None

    def check_markfrag(self, d, tbits, bits):
        """esl_msa_MarkFragments: fragment iff (last residue - first residue + 1) < ceil(fragthresh * alen), product in binary32"""
        import math
        t = struct.unpack("<f", struct.pack("<I", int(tbits, 16)))[0]
        prod = struct.unpack("<f", struct.pack("<f", t * float(d.alen)))[0]     # exact double product of two binary32, rounded once
        minspan = int(math.ceil(prod))
        want = ""
        for i in range(d.nseq):
            r = d.sq[i]["row"]
            isres = [(is_residue_code(d.abc, x) if d.digital else (chr(x).isalpha() and x < 128)) for x in r]
            idx = [k for k, b in enumerate(isres) if b]
            span = (idx[-1] - idx[0] + 1) if idx else (0 - (d.alen + 1) + 1 if d.digital else (-1 - d.alen + 1))
            want += "1" if span < minspan else "0"
        if want != bits: return Failure("monitor", "esl_msa_MarkFragments(thresh=%r): got %s, the span rule gives %s" % (t, bits, want))
        return None

    COMPL = dict(zip("ACGTURYMKSWHBVDNXacgturymkswhbvdnx._-~*", "TGCAAYRKMSWDVBHNXtgcaayrkmswdvbhnx._-~*"))
    def check_sq(self, name, kv, l, st):
        """esl_sq_Digitize / Textize / ReverseComplement / ConvertDegen2X observed through dumps of the kept sequence"""
        if name != "sqdump":
            st["pend"] = (name, kv, l); return None
        if not l.startswith("ok "): st["cur"] = None; st["pend"] = None; return None
        d = {}; xr = []
        for w in l.split()[1:]:
            k, v = w.split("=", 1)
            if k == "xr": xr.append(v)
            else: d[k] = v
        d["xr"] = xr
        if d.get("pad") == "BAD": return Failure("monitor", "a digital sequence lost the leading NUL of its ss / extra markup (1..n indexing)")
        seq = unhx(d["seq"]) or b""
        if int(d["n"]) != len(seq): return Failure("monitor", "sequence object: n disagrees with the sequence")
        for lab, v in [("ss", d["ss"])] + [("xr", x.split(",")[1]) for x in xr]:
            if v != "~" and len(unhx(v) or b"") != len(seq): return Failure("monitor", "sequence object: %s annotation has %d symbols for %d residues" % (lab, len(unhx(v) or b""), len(seq)))
        prev, pend = st["cur"], st["pend"]
        st["cur"], st["pend"] = d, None
        if prev is None or pend is None: return None
        op, kv, res = pend
        pseq = unhx(prev["seq"]) or b""
        same_meta = all(prev[k] == d[k] for k in ("name", "acc", "desc", "src"))
        if not same_meta: return Failure("monitor", op + " changed name/accession/description/source of the sequence")
        if res.split()[0] != "ok" and not (op == "sqrevcomp" and res == "einval"):
            if prev != d: return Failure("monitor", "%s failed (%s) but modified the sequence" % (op, res))
            return None
        if op in ("sqdigitize", "sqtextize", "sqdegen2x") and (prev["ss"] != d["ss"] or prev["xr"] != d["xr"] or prev["start"] != d["start"] or prev["end"] != d["end"]):
            return Failure("monitor", op + " changed the annotation or the coordinates of the sequence")
        if op == "sqdigitize" and prev["abc"] == "none":
            sym = ABC[d["abc"]][2]
            txt = bytes(ord(sym[x]) if x < len(sym) else 0 for x in seq)
            want = pseq.upper().replace(b".", b"-").replace(b"_", b"-")
            if d["abc"] == "rna": want = want.replace(b"T", b"U")
            if d["abc"] == "dna": want = want.replace(b"U", b"T")
            if d["abc"] in ("rna", "dna"): want = want.replace(b"X", b"N").replace(b"I", b"A")
            if txt != want: return Failure("monitor", "esl_sq_Digitize: %r became %r" % (pseq, txt))
        elif op == "sqtextize" and prev["abc"] != "none":
            sym = ABC[prev["abc"]][2]
            if bytes(ord(sym[x]) if x < len(sym) else 0 for x in pseq) != seq or d["abc"] != "none": return Failure("monitor", "esl_sq_Textize: not the symbol string of the digital sequence")
        elif op == "sqdegen2x" and prev["abc"] != "none":
            K, Kp, _ = ABC[prev["abc"]]
            if bytes((Kp - 3) if K < x < Kp - 2 else x for x in pseq) != seq: return Failure("monitor", "esl_sq_ConvertDegen2X: not the degenerate-to-unknown map")
        elif op == "sqrevcomp":
            if d["ss"] != "~" or d["xr"]: return Failure("monitor", "esl_sq_ReverseComplement kept structure / residue markup it documents as invalidated")
            if (prev["start"], prev["end"]) != (d["end"], d["start"]): return Failure("monitor", "esl_sq_ReverseComplement did not swap start and end")
            if prev["abc"] == "none":
                want = bytes(ord(self.COMPL.get(chr(c), "N")) for c in reversed(pseq))
                bad = any(chr(c) not in self.COMPL for c in pseq)
                if want != seq or (res == "einval") != bad: return Failure("monitor", "esl_sq_ReverseComplement(text): %r -> %r (%s)" % (pseq, seq, res))
            else:
                compl = {0: 3, 1: 2, 2: 1, 3: 0}
                if len(seq) != len(pseq) or any((x < 4 or y < 4) and compl.get(x) != y for x, y in zip(pseq, reversed(seq))): return Failure("monitor", "esl_sq_ReverseComplement(digital): not the reverse complement")
                pp = st.get("rc_prev")
                if pp is not None and pp[0] == prev["seq"] and pp[1] != d["seq"]: return Failure("monitor", "esl_sq_ReverseComplement twice is not the identity on a digital sequence")
                st["rc_prev"] = (d["seq"], prev["seq"])
                return None
        st["rc_prev"] = None
        return None

    def check_setstr(self, pendset, after):
        """esl_msa_Set* / esl_msa_Format*: exactly the named field (of the named sequence) is replaced by the first n bytes of the
        string (resp. the formatted string); NULL erases an optional field; every other field, name, weight and annotation stays
        where it was; idx >= nseq or a NULL sequence name is refused (exception) and nothing changes"""
        name, kv, st, before, nseq = pendset
        if st == "bad-op" or before is None: return None
        v = kv.get("v"); val = None if v in (None, "~") else (b"" if v == "-" else bytes.fromhex(v))
        i = int(kv.get("i", 0)); f = kv["f"]
        if name == "setstr":
            n = int(kv.get("n", -1)); new = None if val is None else (val[:n] if n >= 0 else val); errst = "einconceivable exception"
        else:
            new = None if val is None else val + b"|" + str(int(kv.get("k", 0))).encode(); errst = "einval exception"
        what = "esl_msa_%s(%s)" % ("Set*" if name == "setstr" else "Format*", f)
        if f.startswith("sq") and (i >= nseq or (f == "sqname" and new is None)):
            if st != errst: return Failure("monitor", "%s with idx >= nseq or a NULL name: %s, expected %s" % (what, st, errst))
            if after != before: return Failure("monitor", what + " failed but changed the alignment")
            return None
        if st != "ok": return Failure("monitor", what + " failed: " + st)
        enc = "~" if new is None else ("-" if new == b"" else new.hex())
        toks = before.split(); seen = -1
        for k, t in enumerate(toks):
            if f.startswith("sq"):
                if t.startswith("sq="):
                    seen += 1
                    if seen == i:
                        p = t[3:].split(","); p[{"sqname": 0, "sqacc": 3, "sqdesc": 4}[f]] = enc; toks[k] = "sq=" + ",".join(p)
            elif t.startswith(f + "="): toks[k] = f + "=" + enc; break
        if " ".join(toks) != after:
            return Failure("monitor", "%s: the alignment afterwards is not the alignment before with exactly that field replaced by %r" % (what, new))
        return None

    def check_grow(self, kv, l):
        """esl_msa_Expand on a growable alignment, k times: sqalloc = n * 2^k; every old slot keeps its content; every new slot is
        NULL / weight -1.0 / length 0; optional arrays that did not exist still do not; every GS/GR row has sqalloc slots"""
        n, k = int(kv["n"]), int(kv["k"])
        if l == "bad-op": return None
        if not l.startswith("ok sqalloc="): return Failure("monitor", "esl_msa_Expand failed: " + l[:60])
        w = l.split(); total = n * 2 ** k
        if int(w[1].split("=")[1]) != total: return Failure("monitor", "esl_msa_Expand x%d from %d slots: sqalloc %s, expected %d" % (k, n, w[1], total))
        named, opt = min(int(kv.get("named", 0)), n), int(kv.get("opt", 0)); acc, desc = int(kv.get("acc", -1)), int(kv.get("desc", -1))
        sl = [x[3:].split(",") for x in w[2:] if x.startswith("sl=")]
        if len(sl) != total: return Failure("monitor", "esl_msa_Expand: %d slots printed for sqalloc %d" % (len(sl), total))
        for i, f in enumerate(sl):
            want = [hx("q%d" % i) if i < named else "~", "bff0000000000000", "0", "~"]
            want += ["~:0" if opt & b else "." for b in (1, 2, 4)]
            want += ["." if acc < 0 else (hx("AC") if i == acc else "~"), "." if desc < 0 else (hx("d") if i == desc else "~")]
            if f != want: return Failure("monitor", "esl_msa_Expand: slot %d of %d is %r, expected %r" % (i, total, f, want))
        for kind, cnt, val in (("gs", min(int(kv.get("gs", 0)), 8), "v"), ("gr", min(int(kv.get("gr", 0)), 8), "x")):
            rows = [x[3:].split(",") for x in w[2:] if x.startswith(kind + "=")]
            if len(rows) != cnt: return Failure("monitor", "esl_msa_Expand: %d %s rows, expected %d" % (len(rows), kind, cnt))
            for t, r in enumerate(rows):
                if r != [hx(("T" if kind == "gs" else "R") + str(t))] + [hx(val) if i == t % n else "~" for i in range(total)]:
                    return Failure("monitor", "esl_msa_Expand: %s row %d is not the old row followed by NULL slots" % (kind, t))
        return None

    def grow_case(self, rng, idx):
        """growable alignments (esl_msa_Create(n, -1)) at the allocation sizes the parsers start from and meet (1, 2, 15, 16, 17, 32, 33 ...),
        with and without each optional per-sequence array and unparsed GS/GR rows, expanded 0-4 times; Expand on a fixed-width alignment"""
        ops = []
        for _ in range(rng.randrange(1, 5)):
            n = rng.choice([1, 2, 3, 8, 15, 16, 16, 17, 31, 32, 33, 64])
            ops.append("grow n=%d k=%d named=%d opt=%d acc=%d desc=%d gs=%d gr=%d" % (
                n, rng.choice([0, 1, 1, 2, 3, 4]) if n <= 17 else rng.choice([0, 1, 2]), rng.choice([0, 1, n, rng.randrange(n + 1)]), rng.randrange(8),
                rng.choice([-1, 0, n - 1, rng.randrange(n)]), rng.choice([-1, -1, 0, n - 1]), rng.choice([0, 0, 1, 2, 5]), rng.choice([0, 0, 1, 3])))
        if rng.random() < 0.5:
            ops += ["new nseq=%d alen=%d" % (rng.choice([1, 16, 17]), rng.choice([0, 1, 5])), "dump", "expand", "dump", "validate"]
        return {"name": "grow%d" % idx, "ops": ops, "sticky": 0}

    def check_sample(self, kv, d):
        """esl_msa_Sample: a digital alignment of 1..max_nseq sequences and 1..max_alen columns, every cell a residue or the gap code
        (never missing data / nonresidue), names non-empty graphic words that do not start with punctuation, an RF line of x and '.',
        weights 1.0 without the HASWGTS flag, nothing else"""
        K, Kp, _ = ABC[kv["abc"]]
        if not d.digital or d.abc != kv["abc"] or d.flags != 2: return Failure("monitor", "esl_msa_Sample: not a plain digital alignment of the requested alphabet")
        if not (1 <= d.nseq <= int(kv["maxn"]) and 1 <= d.alen <= int(kv["maxa"])): return Failure("monitor", "esl_msa_Sample: %d x %d outside 1..%s x 1..%s" % (d.nseq, d.alen, kv["maxn"], kv["maxa"]))
        for q in d.sq:
            if any(not (x <= K or K < x < Kp - 2) for x in q["row"]): return Failure("monitor", "esl_msa_Sample: a cell that is neither residue nor gap")
            nm = q["name"]
            if not nm or len(nm) > 30 or any(not (0x21 <= c <= 0x7e) for c in nm) or not chr(nm[0]).isalnum(): return Failure("monitor", "esl_msa_Sample: bad name %r" % nm)
            if bits2d(q["wgt"]) != 1.0 or any(q[k] is not None for k in ("acc", "desc", "ss", "sa", "pp")): return Failure("monitor", "esl_msa_Sample: weight or annotation set")
        if d.rf is None or any(c not in b"x." for c in d.rf): return Failure("monitor", "esl_msa_Sample: RF line %r" % d.rf)
        if any(getattr(d, k) is not None for k in ("ss_cons", "sa_cons", "pp_cons", "mm", "name", "desc", "acc", "au")) or d.gc or d.gr or d.gs or d.gf or d.comment:
            return Failure("monitor", "esl_msa_Sample: annotation it does not document")
        return None

    def sample_case(self, rng, idx):
        """esl_msa_Sample (Mersenne Twister of C09, arbitrary seed) followed by a history of transformations of the sampled alignment"""
        abc = rng.choice(["rna", "dna", "amino"])
        ops = ["sample seed=%d abc=%s maxn=%d maxa=%d" % (rng.choice([1, 42, rng.randrange(1, 2 ** 32)]), abc, rng.choice([1, 2, 5, 16, 17, 32, 33, 40]), rng.choice([1, 2, 5, 30, 100, 200])),
               "dump", "validate", "checksum", "uniq"]
        digital = True
        for _ in range(rng.randrange(2, 7)):
            r = rng.random()
            if r < 0.2: ops += ["colsubset mask=%s cyc=1" % (self.rand_mask(rng, rng.choice([1, 2, 3, 7, 13])) or "1"), "dump", "validate"]
            elif r < 0.35: ops += ["minimgaps gaps=%s rf=%d" % (hx("-_.~"), rng.randrange(2)), "dump", "validate"]
            elif r < 0.45: ops += ["seqsubset mask=1%s cyc=1" % self.rand_mask(rng, rng.choice([1, 2, 5])), "dump w=b", "validate w=b", "dump", "swap", "dump"]
            elif r < 0.6:
                if digital: ops += ["textize", "dump", "validate"]
                else: ops += ["digitize abc=" + abc, "dump", "validate"]
                digital = not digital
            elif r < 0.7 and digital and abc != "amino": ops += ["revcomp", "dump", "validate"]
            elif r < 0.8 and digital: ops += ["flushleft", "dump", "validate"]
            elif r < 0.9: ops += ["dump", "reasonablerf symfrac=" + dbits(rng.choice([0.5, 0.3, 1.0])) + (" cons=1" if rng.random() < 0.5 else "") + ("" if digital else " abc=" + abc)]
            else: ops += [rng.choice(["clone", "copy"]), "dump w=b", "compare"]
        return {"name": "sample%d" % idx, "ops": ops, "sticky": 1}

    def rand_setstr(self, rng, nseq):
        f = rng.choice(["name", "desc", "acc", "au", "sqname", "sqname", "sqacc", "sqacc", "sqdesc", "sqdesc"])
        i = rng.randrange(nseq) if rng.random() < 0.9 else rng.choice([nseq, nseq + 1, nseq + 17])
        val = "".join(rng.choice(string.ascii_letters + string.digits + " _-./|%") for _ in range(rng.choice([0, 1, 2, 5, 9, 16, 17, 40])))
        if f in ("sqname",): val = val.replace(" ", "_")
        v = "~" if rng.random() < 0.15 else hx(val)
        if rng.random() < 0.5:
            n = -1 if v == "~" or rng.random() < 0.4 else rng.choice([0, 1, len(val), max(0, len(val) - 1), len(val) // 2])
            return "setstr f=%s i=%d v=%s n=%d" % (f, i, v, min(n, len(val)))
        return "fmtstr f=%s i=%d v=%s k=%d" % (f, i, v, rng.choice([0, 7, -3, 123456, 2147483647, -2147483648]))

    def check_rf(self, d, sbits, l, use_cons=False, lent=None):
        """esl_msa_ReasonableRF(msa, symfrac, useconsseq): 'x' (or, with useconsseq, the symbol of the canonical residue with the
        largest weighted count) where the weighted fraction of residues (gaps in the denominator, missing data ignored in digital
        mode) reaches symfrac and at least one residue is present, '.' elsewhere. useconsseq on an alignment without alphabet:
        eslEINVAL (0c757a4); a text alignment with a caller-supplied alphabet <lent>: letters are counted through inmap[]."""
        abc = d.abc if d.digital else (lent if lent in ABC else None)
        if use_cons and abc is None:
            return None if l == "einval exception" else Failure("monitor", "ReasonableRF(useconsseq) on an alignment without alphabet must throw eslEINVAL: " + l[:40])
        if not l.startswith("ok ss="): return Failure("monitor", "esl_msa_ReasonableRF failed: " + l[:60])
        symfrac = bits2d(sbits); got = unhx(l[6:]) or b""
        want = bytearray()
        for c in range(d.alen):
            r = tot = 0.0
            cnt = [0.0] * (ABC[abc][0] if use_cons else 0)       # binary32 counts of esl_abc_FCount
            for i in range(d.nseq):
                x = d.sq[i]["row"][c]; w = bits2d(d.sq[i]["wgt"])
                if d.digital: res = is_residue_code(abc, x); gap = x == ABC[abc][0]
                else:
                    res = x < 128 and chr(x).isalpha(); gap = not res
                    if res and use_cons:
                        x = INMAP[abc][x]
                        if not is_residue_code(abc, x): return Failure("monitor", "generator: letter outside the lent alphabet")
                if use_cons and res:
                    K = ABC[abc][0]
                    try: wt = f32(w)
                    except OverflowError: wt = float("inf") if w > 0 else float("-inf")
                    if x < K: cnt[x] = f32x(cnt[x] + wt)
                    else:
                        deg, ndeg = DEGEN[abc]
                        for y in range(K):
                            if deg[x][y]: cnt[y] = f32x(cnt[y] + f32x(wt / float(ndeg[x])))
                if res: r += w; tot += w
                elif gap: tot += w
            try: cons = r > 0.0 and r / tot >= symfrac
            except ZeroDivisionError: cons = r > 0.0 and (float("inf") if r > 0 else float("nan")) >= symfrac
            if cons and use_cons:
                best = 0
                for k in range(1, len(cnt)):
                    if cnt[k] > cnt[best]: best = k
                want.append(ord(ABC[abc][2][best]))
            else: want.append(0x78 if cons else 0x2e)
        if bytes(want) != got: return Failure("monitor", "esl_msa_ReasonableRF(symfrac=%r): %r, the weighted-occupancy rule gives %r" % (symfrac, got, bytes(want)))
        return None

    def check_fetch(self, d, i, l):
        """esl_sq_FetchFromMSA against the last dump of that alignment: the ungapped row, annotation dealigned in parallel"""
        if d is None or not d.ok or l == "nomsa": return None
        if i >= d.nseq or i < 0:
            return None if l == "eod" else Failure("monitor", "esl_sq_FetchFromMSA(%d) on %d sequences: %s" % (i, d.nseq, l[:40]))
        if not l.startswith("ok "): return Failure("monitor", "esl_sq_FetchFromMSA failed: " + l[:60])
        kv = {}; xr = []
        for w in l.split()[1:]:
            k, v = w.split("=", 1)
            if k == "xr": t, val = v.split(","); xr.append((unhx(t), unhx(val)))
            else: kv[k] = v
        if kv.get("pad") == "BAD": return Failure("monitor", "esl_sq_FetchFromMSA: digital ss/xr annotation lost its leading NUL (1..n indexing)")
        sq = d.sq[i]; row = sq["row"]
        if d.digital:
            K, Kp, _ = ABC[d.abc]; keep = [not (x == K or x == Kp - 1) for x in row]
        else: keep = [x not in b"-_.~" for x in row]
        want = filt(keep, row)
        if (unhx(kv["seq"]) or b"") != want: return Failure("monitor", "esl_sq_FetchFromMSA: sequence %d is not the ungapped row (%r vs %r)" % (i, unhx(kv["seq"]), want))
        if int(kv["n"]) != len(want) or int(kv["L"]) != len(want): return Failure("monitor", "esl_sq_FetchFromMSA: n/L disagree with the sequence")
        if unhx(kv["name"]) != sq["name"] or (unhx(kv["acc"]) or b"") != (sq["acc"] or b"") or (unhx(kv["desc"]) or b"") != (sq["desc"] or b""):
            return Failure("monitor", "esl_sq_FetchFromMSA: name/accession/description of sequence %d not carried over" % i)
        if (unhx(kv["src"]) or b"") != (d.name or b""): return Failure("monitor", "esl_sq_FetchFromMSA: source is not the alignment name")
        ss = unhx(kv["ss"])
        if (sq["ss"] is None) != (ss is None) or (ss is not None and ss != filt(keep, sq["ss"])):
            return Failure("monitor", "esl_sq_FetchFromMSA: SS of sequence %d not dealigned in register" % i)
        wantxr = [(t, filt(keep, v[i])) for t, v in d.gr if v[i] is not None]
        if [(t, v or b"") for t, v in xr] != [(t, v or b"") for t, v in wantxr]:
            return Failure("monitor", "esl_sq_FetchFromMSA: GR markup of sequence %d not carried over / dealigned" % i)
        return None

    def check_b(self, pending, A, B):
        if not pending or A is None: return None
        w, kv, st, before = pending
        if st.split()[0] != "ok": return None
        if w[0] in ("clone", "copy"):
            if before is not None and getattr(before, "line", None) and B.f != before.f:
                return Failure("monitor", "%s: the copy differs from the original" % w[0])
            if before is not None and (B.sq != before.sq or B.gr != before.gr or B.gs != before.gs or B.gc != before.gc or B.gf != before.gf or B.comment != before.comment):
                return Failure("monitor", "%s: the copy differs from the original" % w[0])
        elif w[0] == "seqsubset" and before is not None:
            mask = expand_mask(kv, before.nseq)
            keep = [i for i, m in enumerate(mask) if m]
            if B.nseq != len(keep) or B.alen != before.alen: return Failure("monitor", "seqsubset: wrong dimensions")
            for ni, oi in enumerate(keep):
                if B.sq[ni] != before.sq[oi]:
                    return Failure("monitor", "seqsubset mask=%s: retained sequence %d lost or changed its name/weight/residues/annotation" % (kv["mask"], oi))
                for tbl_new, tbl_old, what in ((B.gs, before.gs, "GS"), (B.gr, before.gr, "GR")):
                    dn = {t: v[ni] for t, v in tbl_new}
                    for t, v in tbl_old:
                        if what == "GR" and v[oi] == b"": continue
                        if v[oi] is not None and dn.get(t) != v[oi]:
                            return Failure("monitor", "seqsubset: %s %r of retained sequence %d not carried over" % (what, t, oi))
                    for t, v in tbl_new:
                        if v[ni] is not None and dict((tt, vv[oi]) for tt, vv in tbl_old).get(t) != v[ni]:
                            return Failure("monitor", "seqsubset: %s %r attached to the wrong sequence" % (what, t))
            for k in ("ss_cons", "sa_cons", "pp_cons", "rf", "mm", "name", "desc", "acc", "au"):
                if getattr(B, k) != getattr(before, k): return Failure("monitor", "seqsubset: %s changed" % k)
            if B.f["cutoff"] != before.f["cutoff"] or B.f["cutset"] != before.f["cutset"] or B.flags != before.flags or B.abc != before.abc:
                return Failure("monitor", "seqsubset: cutoffs/flags/alphabet changed")
            if B.gc or B.gf or B.comment: return Failure("monitor", "seqsubset: GC/GF/comments were to be dropped")
        return None

    def check_a(self, pending, before, after, line):
        """dump of slot A after an operation"""
        if not pending or before is None: return None
        w, kv, st, _ = pending
        name = w[0]
        ok = st.split()[0] == "ok"
        if name in ("seqsubset", "clone", "copy", "markfrag"):
            if getattr(before, "line", None) is not None and line != before.line:
                return Failure("monitor", "%s modified its input alignment" % name)
            return None
        if not ok:
            return None
        if name == "colsubset":
            mask = expand_mask(kv, before.alen)
            return self.check_cols(before, after, mask, "colsubset mask=" + kv["mask"], None)
        if name == "rbb":
            mask = expand_mask(kv, before.alen)
            if after.alen != before.alen or after.f != dict(before.f, ss_cons=after.f["ss_cons"]) or after.gc != before.gc or after.gr != before.gr or after.gs != before.gs:
                return Failure("monitor", "rbb changed something besides SS lines")
            for olds, news, lab in [(before.ss_cons, after.ss_cons, "SS_cons")] + [(before.sq[i]["ss"], after.sq[i]["ss"], "SS of seq %d" % i) for i in range(before.nseq)]:
                if (olds is None) != (news is None): return Failure("monitor", "rbb: %s appeared/disappeared" % lab)
                if olds is None: continue
                po, pn = wuss_pairs(olds), wuss_pairs(news)
                if po is None: continue
                if pn != set((i, j) for i, j in po if mask[i] and mask[j]):
                    return Failure("monitor", "rbb: pairs of %s are not the original pairs with both partners retained" % lab)
            for i in range(before.nseq):
                if {k: v for k, v in before.sq[i].items() if k != "ss"} != {k: v for k, v in after.sq[i].items() if k != "ss"}:
                    return Failure("monitor", "rbb changed sequence %d" % i)
            return None
        if name in ("minimgaps", "minimgapstext", "nogaps", "nogapstext"):
            gaps = unhx(kv["gaps"]) or b""
            rf = kv.get("rf") == "1"
            mask = []
            for c in range(before.alen):
                col = [before.is_gap(i, c, gaps) for i in range(before.nseq)]
                if name.startswith("minim"):
                    keep = not all(col)
                    if rf and before.rf is not None:
                        ch = before.rf[c]
                        rfgap = (ch in b"-._~") if before.digital else (ch in gaps)
                        if before.digital and chr(ch) in "-._": rfgap = True
                        if not rfgap: keep = True
                else: keep = not any(col)
                mask.append(keep)
            return self.check_cols(before, after, mask, op_name(w), gaps)
        if name in ("digitize", "textize"):
            if after.alen != before.alen or after.nseq != before.nseq: return Failure("monitor", name + " changed dimensions")
            for i in range(before.nseq):
                a, b = before.sq[i], after.sq[i]
                if {k: v for k, v in a.items() if k != "row"} != {k: v for k, v in b.items() if k != "row"}:
                    return Failure("monitor", name + ": per-sequence annotation changed")
                if name == "digitize":
                    sym = ABC[after.abc][2]
                    txt = bytes(ord(sym[x]) if x < len(sym) else 0 for x in b["row"])
                    want = a["row"].upper().replace(b".", b"-").replace(b"_", b"-")
                    if after.abc == "rna": want = want.replace(b"T", b"U")
                    if after.abc == "dna": want = want.replace(b"U", b"T")
                    if after.abc in ("rna", "dna"): want = want.replace(b"X", b"N").replace(b"I", b"A")   # documented synonyms
                    if txt != want: return Failure("monitor", "text->digital->text changed more than case and gap symbols in row %d: %r -> %r" % (i, a["row"], txt))
                else:
                    sym = ABC[before.abc][2]
                    if bytes(ord(sym[x]) if x < len(sym) else 0 for x in a["row"]) != b["row"]:
                        return Failure("monitor", "textize: row %d is not the symbol string of the digital row" % i)
            return None
        if name == "revcomp":
            if after.alen != before.alen or after.nseq != before.nseq: return Failure("monitor", "revcomp changed dimensions")
            compl = {0: 3, 1: 2, 2: 1, 3: 0}
            for i in range(before.nseq):
                a, b = before.sq[i]["row"], after.sq[i]["row"]
                if any((x < 4 or y < 4) and compl.get(x) != y for x, y in zip(a, reversed(b))):
                    return Failure("monitor", "revcomp: row %d is not the reverse complement" % i)
                for k in ("sa", "pp"):
                    if before.sq[i][k] is not None and before.sq[i][k][::-1] != after.sq[i][k]: return Failure("monitor", "revcomp: %s of seq %d not reversed" % (k, i))
            prev2 = getattr(before, "rc_from", None)
            if prev2 is not None and prev2 != line: return Failure("monitor", "reverse complement applied twice is not the identity")
            after.rc_from = getattr(before, "line", None)
            return None
        if name in ("degen2x", "symconvert", "defwgts"):
            if pending[3] is None: return None
            if after.nseq != before.nseq or after.alen != before.alen: return Failure("monitor", name + " changed the dimensions")
            bf, af = dict(before.f), dict(after.f)
            if name == "defwgts": bf["flags"] = af["flags"] = None
            if bf != af or before.gc != after.gc or before.gr != after.gr or before.gs != after.gs or before.gf != after.gf or before.comment != after.comment:
                return Failure("monitor", name + " changed something besides the " + ("weights" if name == "defwgts" else "rows"))
            for i in range(before.nseq):
                a, b = before.sq[i], after.sq[i]
                skip = "wgt" if name == "defwgts" else "row"
                if {k: v for k, v in a.items() if k != skip} != {k: v for k, v in b.items() if k != skip}: return Failure("monitor", "%s changed sequence %d" % (name, i))
                if name == "defwgts":
                    if b["wgt"] != "3ff0000000000000": return Failure("monitor", "SetDefaultWeights: weight of sequence %d is not 1.0" % i)
                elif name == "degen2x":
                    K, Kp, _ = ABC[before.abc]
                    if bytes((Kp - 3) if K < x < Kp - 2 else x for x in a["row"]) != b["row"]:
                        return Failure("monitor", "ConvertDegen2X: row %d is not the old row with every degenerate code replaced by the unknown-residue code" % i)
                else:
                    olds, news = unhx(kv["old"]) or b"", unhx(kv["new"]) or b""
                    want = bytes((news[0] if len(news) == 1 else news[olds.index(c)]) if c in olds else c for c in a["row"])
                    if want != b["row"]: return Failure("monitor", "SymConvert(%r -> %r): row %d is %r, expected %r" % (olds, news, i, b["row"], want))
            if name == "defwgts" and (after.flags & 1 or after.flags | 1 != before.flags | 1): return Failure("monitor", "SetDefaultWeights: flags")
            return None
        if name in ("flushleft", "markfragold"):
            for i in range(before.nseq):
                if before.dealigned(i) != after.dealigned(i): return Failure("monitor", "%s changed the residues of row %d" % (name, i))
            return None
        return None

    def check_cols(self, before, after, mask, what, gaps):
        if len(mask) != before.alen: return None
        if after.alen != sum(mask): return Failure("monitor", "%s: alen is %d, %d columns were kept" % (what, after.alen, sum(mask)))
        nucleic = before.digital and before.abc in ("rna", "dna")
        fix = "fix=1" in what
        for i in range(before.nseq):
            a, b = before.sq[i], after.sq[i]
            for k in ("row", "sa", "pp") + (() if (nucleic or fix) else ("ss",)):
                if filt(mask, a[k]) != b[k]: return Failure("monitor", "%s: %s of sequence %d is not the selected columns" % (what, k, i))
            for k in ("name", "wgt", "acc", "desc"):
                if a[k] != b[k]: return Failure("monitor", "%s: %s of sequence %d changed" % (what, k, i))
            if gaps is not None and before.dealigned(i, gaps) != after.dealigned(i, gaps) and what.startswith(("minim",)):
                return Failure("monitor", "%s: ungapped sequence %d changed" % (what, i))
        for k in ("sa_cons", "pp_cons", "rf", "mm") + (() if (nucleic or fix) else ("ss_cons",)):
            if filt(mask, getattr(before, k)) != getattr(after, k): return Failure("monitor", "%s: %s is not the selected columns" % (what, k))
        if [(t, filt(mask, v)) for t, v in before.gc] != after.gc: return Failure("monitor", "%s: GC markup is not the selected columns" % what)
        if [(t, [filt(mask, x) for x in v]) for t, v in before.gr] != after.gr: return Failure("monitor", "%s: GR markup is not the selected columns" % what)
        if before.gs != after.gs or before.gf != after.gf or before.comment != after.comment: return Failure("monitor", "%s: unaligned markup changed" % what)
        if nucleic or fix:
            for olds, news, lab in [(before.ss_cons, after.ss_cons, "SS_cons")] + [(before.sq[i]["ss"], after.sq[i]["ss"], "SS of seq %d" % i) for i in range(before.nseq)]:
                if olds is None:
                    if news is not None: return Failure("monitor", "%s: %s appeared" % (what, lab))
                    continue
                po, pn = wuss_pairs(olds), wuss_pairs(news)
                if po is None: continue
                if pn is None: return Failure("monitor", "%s: %s is no longer a balanced WUSS string" % (what, lab))
                newidx = {}; k = 0
                for c, m in enumerate(mask):
                    if m: newidx[c] = k; k += 1
                want = set((newidx[i], newidx[j]) for i, j in po if mask[i] and mask[j])
                if pn != want: return Failure("monitor", "%s: pairs of %s are not the original pairs with both partners retained" % (what, lab))
        return None

    def extra_evidence(self, ctx):
        return {"operation_histogram": getattr(self, "_hist", {}),
                "generator": "random annotated alignments 1-30 x 1-200 (text/RNA/DNA/amino; RF, SS_cons nested+pseudoknotted+broken, per-seq SS/SA/PP, GC/GR/GS/GF, weights, accessions) x op chains; WUSS strings to length 2000"}


def op_name(w): return " ".join(w)

SPEC = C15()
