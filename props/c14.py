"""C14 — option processing (esl_getopts.c). Model: lean/EaselModel/Getopts/*, theorems: Props/C14.lean,
harness: h_getopts.c.  Kind H: hand model tied by an exact differential run over random option tables x
command lines x environments x config files x processing orders."""
import re
from vlib.engine import Prop, Failure

def hx(s):
    """protocol encoding of a string: None -> ~, '' -> -, else lowercase hex of its latin-1 bytes"""
    if s is None:
        return "~"
    if s == "":
        return "-"
    return s.encode("latin-1").hex()


def unhx(h):
    if h == "~":
        return None
    if h == "-":
        return ""
    return bytes.fromhex(h).decode("latin-1")


NONE, INT, REAL, CHAR, STRING = 0, 1, 2, 3, 4
# characters that can neither continue nor start a number (no digits, sign, point, blank, quote, comment, comma, '=')
GARBAGE = "abcdfghijklmnopqrstuvwxyzABCDFGHIJKLMNOPQRSTUVWXYZ_%$@!~/:;?^&*()[]{}|<>"
SHORTS = "abcdefghijkmnopqrstuvwxyzABCDEFGHIJKLMNOPQRSTUVWXYZ0123456789"   # no 'l' (looks like 1); any alnum is legal
STEMS = ["foo", "foobar", "fo", "f", "bar", "bar-x", "ba", "no-foo", "no-bar", "mul", "multi", "multiple", "a", "ab", "abc",
         "n", "x1", "x12", "out", "output", "out_dir", "in", "inc", "max", "max-n", "min", "v", "verbose", "q"]


class Table:
    def __init__(self):
        self.opts = []     # dicts: name,type,def,env,range,tog,req,inc + lo/hi helper info

    def lines(self):
        return ["opt name=%s type=%d def=%s env=%s range=%s tog=%s req=%s inc=%s" % (
            hx(o["name"]), o["type"], hx(o["def"]), hx(o["env"]), hx(o["range"]), hx(o["tog"]), hx(o["req"]), hx(o["inc"]))
            + ((" help=%s grp=%d" % (hx(o["help"]), o.get("grp", 0))) if "help" in o else "")
            for o in self.opts]

    def help_op(self, rng):
        """an esl_opt_DisplayHelp call whose textwidth sits at / next to one of the three thresholds of the layout decision"""
        grp = rng.choice([0, 0, 1, 2, 3])
        sel = [o for o in self.opts if grp == 0 or o.get("grp", 0) == grp]
        ow = max([len(o["name"]) + (4 if o["type"] != 0 else 0) for o in sel] + [0])
        def w2(o):
            h = o.get("help", "help")
            return 2 if h is None else len(h) + 1
        def w1(o):
            return w2(o) + (len(o["def"]) + 4 if o["def"] is not None else 0)
        def w0(o):
            return w1(o) + (len(o["range"]) + 4 if o["range"] is not None else 0)
        indent = rng.choice([0, 2, 2, 4, 8])
        th = [indent + ow + max([f(o) for o in sel] + [0]) for f in (w0, w1, w2)]
        width = max(0, rng.choice(th) + rng.choice([-1, 0, 0, 1])) if rng.random() < 0.8 else rng.choice([0, 20, 40, 80, 80, 120])
        return "help grp=%d indent=%d width=%d" % (grp, indent, width)

    def resolves(self, i):
        """process_optlist takes the first option having the element as a prefix: usable in lists only if that is i itself"""
        e = self.opts[i]["name"]
        for j, o in enumerate(self.opts):
            if o["name"].startswith(e):
                return j == i
        return False


def fmt_real(rng, v=None):
    """a decimal with <= 15 significant digits (DBL_DIG: distinct such decimals are distinct doubles, in the same order), exponent within the normal range; returns (mant, exp10)"""
    mant = rng.choice([0, 1, 5, 10, 25, 99, 100, 125, 999999, rng.randrange(0, 1000), rng.randrange(0, 1000000),
                       rng.randrange(0, 10 ** 15), 10 ** 15 - 1, 123456789012345, rng.randrange(10 ** 14, 10 ** 15)])
    exp = rng.choice([0, 0, -1, -2, -3, 1, 2, -6, 6, rng.randrange(-12, 13), rng.randrange(-12, 13), rng.randrange(-290, 290), -15, -20])
    return mant, exp


def real_text(rng, mant, exp, neg):
    """spell neg * mant * 10^exp"""
    style = rng.random()
    s = str(mant)
    if style < 0.5 and -8 <= exp <= 0:
        if exp == 0:
            t = s + rng.choice(["", ".", ".0"])
        else:
            s2 = s.rjust(-exp + 1, "0")
            t = s2[:exp] + "." + s2[exp:]
            if t.startswith("0.") and rng.random() < 0.2:
                t = t[1:]
    elif style < 0.6 and 0 < exp <= 6:
        t = s + "0" * exp if mant else "0"
    else:
        t = "%s%s%s%d" % (s, rng.choice(["e", "E"]), rng.choice(["", "+"]) if exp >= 0 else "", exp)
    return ("-" if neg else rng.choice(["", "", "", "+"])) + t


class Gen:
    def __init__(self, rng, tier):
        self.rng, self.tier = rng, tier
        self.cmd_used = set()
        self.stats = {"tables": 0, "opts": 0, "types": [0] * 5, "cmdline": 0, "spoof": 0, "env": 0, "cfg": 0,
                      "words": 0, "abbrev": 0, "cluster": 0, "eqform": 0, "unknown": 0, "malformed": 0,
                      "badvalue": 0, "dashdash": 0, "plus_words": 0, "cfg_missing_arg": 0, "reuse": 0, "reordered": 0, "spoof_twice": 0, "prefix_pair_cases": 0}

    # ---------------------------------------------------------------- table
    def table(self, case_id):
        rng = self.rng
        t = Table()
        n = rng.choice([1, 2, 3, 4, 5, 6, 8, 10, 12, rng.randrange(1, 13)])
        names = set()
        stems = rng.sample(STEMS, len(STEMS))
        for i in range(n):
            for _ in range(50):
                if rng.random() < 0.45:
                    nm = "-" + rng.choice(SHORTS[:12] if rng.random() < 0.7 else SHORTS)
                else:
                    nm = "--" + (stems.pop() if stems and rng.random() < 0.85 else
                                 "".join(rng.choice("abfo-_1") for _ in range(rng.randrange(1, 7))).lstrip("-_") or "zz")
                if nm not in names:
                    break
            else:
                continue
            names.add(nm)
            ty = rng.choice([NONE, NONE, NONE, INT, REAL, CHAR, STRING, STRING])
            o = {"name": nm, "type": ty, "def": None, "env": None, "range": None, "tog": None, "req": None, "inc": None}
            if ty >= STRING and rng.random() < 0.1:
                o["type"] = rng.choice([5, 6])
            if rng.random() < 0.35:
                o["env"] = "C14E%d_%d" % (i, case_id % 97)
            self.fill_range_default(o)
            t.opts.append(o)
        # toggle groups among booleans / strings
        togglable = [i for i, o in enumerate(t.opts) if o["type"] in (NONE, STRING, 5, 6) and t.resolves(i)]
        rng.shuffle(togglable)
        while len(togglable) >= 2 and rng.random() < 0.6:
            k = min(len(togglable), rng.choice([2, 2, 3, 4]))
            grp, togglable = togglable[:k], togglable[k:]
            style = rng.random()
            for i in grp:
                if style < 0.5:
                    members = grp                              # one list for the whole group (includes itself)
                elif style < 0.85:
                    members = [j for j in grp if j != i]
                else:
                    members = [j for j in grp if j != i][:1]   # asymmetric
                if members:
                    t.opts[i]["tog"] = ",".join(t.opts[j]["name"] for j in members)
            # typical: exactly one boolean member on by default
            bl = [i for i in grp if t.opts[i]["type"] == NONE]
            for i in bl:
                t.opts[i]["def"] = None
            if bl and rng.random() < 0.7:
                t.opts[rng.choice(bl)]["def"] = rng.choice(["TRUE", "on", "default"])
        listable = [i for i in range(len(t.opts)) if t.resolves(i)]
        for i, o in enumerate(t.opts):
            if listable and rng.random() < 0.25:
                o["req"] = ",".join(t.opts[j]["name"] for j in rng.sample(listable, min(len(listable), rng.choice([1, 1, 2]))))
            if listable and rng.random() < 0.25:
                o["inc"] = ",".join(t.opts[j]["name"] for j in rng.sample(listable, min(len(listable), rng.choice([1, 1, 2, 3]))))
        for o in t.opts:
            for fld in ("tog", "req", "inc"):
                if o[fld] is None and rng.random() < 0.03:
                    o[fld] = ""                     # an empty list string is a legal way to say "no list"
        if rng.random() < 0.5:
            for o in t.opts:                   # help strings and docgroup tags (read by esl_opt_DisplayHelp only)
                o["help"] = rng.choice([None, "", "h", "short help", "a longer help string for this option", "x" * rng.choice([30, 60, 70])])
                o["grp"] = rng.choice([0, 1, 1, 2])
        self.stats["tables"] += 1
        self.stats["opts"] += len(t.opts)
        for o in t.opts:
            self.stats["types"][min(o["type"], 4)] += 1
        return t

    def fill_range_default(self, o):
        rng = self.rng
        ty = o["type"]
        if ty == NONE:
            o["def"] = rng.choice([None, None, None, "TRUE", "on"])
        elif ty == INT:
            lo = rng.choice([None, 0, 1, -5, -100, rng.randrange(-1000, 1000)])
            hi = None if rng.random() < 0.4 else (lo if lo is not None else 0) + rng.choice([1, 2, 9, 10, 100, 2 ** 31 - 1 - max(lo or 0, 0)])
            if rng.random() < 0.3:
                lo = hi = None
            o["lo"], o["hi"] = lo, hi
            o["geq"], o["leq"] = rng.random() < 0.6, rng.random() < 0.6
            if lo is not None and hi is not None and (lo + (0 if o["geq"] else 1)) > (hi - (0 if o["leq"] else 1)):
                o["geq"] = o["leq"] = True          # never an empty range
            o["range"] = self.range_text("n", None if lo is None else str(lo), None if hi is None else str(hi), o["geq"], o["leq"])
            o["def"] = None if rng.random() < 0.25 else str(self.int_in(o))
        elif ty == REAL:
            lo = rng.choice([None, (0, 0), (1, 0), (-1, 0), (5, -1), (1, -3)])
            hi = None
            if rng.random() < 0.6:
                base = lo if lo is not None else (0, 0)
                hi = rng.choice([(1, 0), (10, 0), (15, -1), (1, 2), (1, 6)])
                if not self.dec_lt(base, hi):
                    hi = (abs(base[0]) + 1, max(base[1], 0) + 1)
            if rng.random() < 0.3:
                lo = hi = None
            o["lo"], o["hi"] = lo, hi
            o["geq"], o["leq"] = rng.random() < 0.6, rng.random() < 0.6
            sp = lambda d: None if d is None else real_text(rng, abs(d[0]), d[1], d[0] < 0).lstrip("+")
            o["range"] = self.range_text("x", sp(lo), sp(hi), o["geq"], o["leq"])
            o["def"] = None if rng.random() < 0.25 else self.real_in(o)
        elif ty == CHAR:
            lo = rng.choice([None, "a", "A", "0", "b"])
            hi = rng.choice([None, "z", "Z", "9", "y"])
            if lo is not None and hi is not None and not (lo < hi):
                hi = None
            if rng.random() < 0.3:
                lo = hi = None
            o["lo"], o["hi"] = lo, hi
            o["geq"], o["leq"] = rng.random() < 0.7, rng.random() < 0.7
            o["range"] = self.range_text("c", lo, hi, o["geq"], o["leq"])
            o["def"] = None if rng.random() < 0.2 else self.char_in(o)
        else:
            o["def"] = rng.choice([None, None, "", "hi!", "dflt", "a b"])

    @staticmethod
    def range_text(v, lo, hi, geq, leq):
        if lo is None and hi is None:
            return None
        if hi is None:
            return "%s>%s%s" % (v, "=" if geq else "", lo)
        if lo is None:
            return "%s<%s%s" % (v, "=" if leq else "", hi)
        return "%s<%s%s<%s%s" % (lo, "=" if geq else "", v, "=" if leq else "", hi)

    @staticmethod
    def dec_lt(a, b):
        e = min(a[1], b[1])
        return a[0] * 10 ** (a[1] - e) < b[0] * 10 ** (b[1] - e)

    def int_in(self, o):
        rng = self.rng
        lo, hi = o.get("lo"), o.get("hi")
        l = -2 ** 31 if lo is None else (lo if o["geq"] else lo + 1)
        h = 2 ** 31 - 1 if hi is None else (hi if o["leq"] else hi - 1)
        if l > h:
            return l          # empty range: anything (will be rejected)
        return rng.choice([l, h, (l + h) // 2, rng.randrange(l, h + 1), max(l, min(h, rng.choice([0, 1, 42, -1])))])

    def int_out(self, o):
        rng = self.rng
        lo, hi = o.get("lo"), o.get("hi")
        c = []
        if lo is not None:
            c += [lo - 1, lo - rng.randrange(1, 100)] + ([lo] if not o["geq"] else [])
        if hi is not None:
            c += [hi + 1, hi + rng.randrange(1, 100)] + ([hi] if not o["leq"] else [])
        c = [v for v in c if -2 ** 31 <= v <= 2 ** 31 - 1]
        return rng.choice(c) if c else None

    def real_in(self, o):
        rng = self.rng
        lo, hi = o.get("lo"), o.get("hi")
        for _ in range(30):
            if lo is not None and hi is not None:
                e = min(lo[1], hi[1]) - rng.choice([0, 1, 2])
                a, b = lo[0] * 10 ** (lo[1] - e), hi[0] * 10 ** (hi[1] - e)
                m = rng.choice([a, b, (a + b) // 2, rng.randrange(a, b + 1)])
                d = (m, e)
                if len(str(abs(m)).rstrip("0") or "0") > 15 or rng.random() < 0.5:
                    k = rng.randrange(1, 13)             # just inside a bound, up to 15 significant digits
                    d = rng.choice([(lo[0] * 10 + 1, lo[1] - 1), (hi[0] * 10 - 1, hi[1] - 1), lo, hi,
                                    (lo[0] * 100 + rng.randrange(1, 100), lo[1] - 2),
                                    (lo[0] * 10 ** k + 1, lo[1] - k), (hi[0] * 10 ** k - 1, hi[1] - k)])
            elif lo is not None:
                k = rng.randrange(1, 13)
                d = rng.choice([lo, (lo[0] * 10 + 1, lo[1] - 1), (abs(lo[0]) + rng.randrange(1, 1000), max(lo[1], 0)), (lo[0] * 10 ** k + 1, lo[1] - k),
                                (abs(lo[0]) + rng.randrange(1, 10 ** 12), max(lo[1], 0) + rng.choice([0, 0, 3, 100, 280]))])
            elif hi is not None:
                k = rng.randrange(1, 13)
                d = rng.choice([hi, (hi[0] * 10 - 1, hi[1] - 1), (-abs(hi[0]) - rng.randrange(1, 1000), max(hi[1], 0)), (hi[0] * 10 ** k - 1, hi[1] - k),
                                (-abs(hi[0]) - rng.randrange(1, 10 ** 12), max(hi[1], 0) + rng.choice([0, 0, 3, 100, 280]))])
            else:
                m, e = fmt_real(rng)
                d = (m if rng.random() < 0.8 else -m, e)
            if len(str(abs(d[0])).rstrip("0") or "0") > 15:
                continue
            ok = True
            if lo is not None:
                ok &= (not self.dec_lt(d, lo)) if o["geq"] else self.dec_lt(lo, d)
            if hi is not None:
                ok &= (not self.dec_lt(hi, d)) if o["leq"] else self.dec_lt(d, hi)
            if ok:
                return real_text(rng, abs(d[0]), d[1], d[0] < 0)
        d = (lo[0] * 10 + 1, lo[1] - 1) if lo is not None else ((hi[0] * 10 - 1, hi[1] - 1) if hi is not None else (1, 0))
        return real_text(rng, abs(d[0]), d[1], d[0] < 0)

    def real_out(self, o):
        rng = self.rng
        lo, hi = o.get("lo"), o.get("hi")
        c = []
        k = rng.randrange(1, 13)                  # just outside a bound, up to 15 significant digits
        if lo is not None:
            c += [(lo[0] * 10 - 1, lo[1] - 1), (lo[0] - rng.randrange(1, 50), lo[1]), (lo[0] * 10 ** k - 1, lo[1] - k)] + ([lo] if not o["geq"] else [])
        if hi is not None:
            c += [(hi[0] * 10 + 1, hi[1] - 1), (hi[0] + rng.randrange(1, 50), hi[1]), (hi[0] * 10 ** k + 1, hi[1] - k)] + ([hi] if not o["leq"] else [])
        c = [d for d in c if len(str(abs(d[0])).rstrip("0") or "0") <= 15]
        if not c:
            return None
        d = rng.choice(c)
        return real_text(rng, abs(d[0]), d[1], d[0] < 0)

    def char_in(self, o):
        rng = self.rng
        lo, hi = o.get("lo"), o.get("hi")
        l = 33 if lo is None else ord(lo) + (0 if o["geq"] else 1)
        h = 126 if hi is None else ord(hi) - (0 if o["leq"] else 1)
        if l > h:
            return chr(l)
        for _ in range(20):
            ch = chr(rng.choice([l, h, rng.randrange(l, h + 1)]))
            if ch not in ',"#= \t':
                return ch
        return chr(l)

    def char_out(self, o):
        rng = self.rng
        lo, hi = o.get("lo"), o.get("hi")
        c = []
        if lo is not None:
            c += [chr(ord(lo) - 1)] + ([lo] if not o["geq"] else [])
        if hi is not None:
            c += [chr(ord(hi) + 1)] + ([hi] if not o["leq"] else [])
        c = [x for x in c if x not in ',"#= \t']
        return rng.choice(c) if c else None

    # ---------------------------------------------------------------- values
    def value(self, o, where):
        """an argument for option o: mostly valid; returns text (never None). where in cmd/env/cfg"""
        rng = self.rng
        ty = o["type"]
        r = rng.random()
        bad = r < (0.10 if self.rng.random() < 0.5 else 0.03)
        if ty == INT:
            if bad:
                self.stats["badvalue"] += 1
                v = self.int_out(o)
                g = rng.choice(GARBAGE)
                c = ["abc", "1.5", "", "12x", "0x10", "1e3", "--5", "+", "-", "1 2", "7,", str(self.int_in(o)) + g, str(self.int_in(o)) + g,
                     g + str(self.int_in(o))] + ([str(v)] * 12 if v is not None else [])
                if where == "cfg":
                    c = [x for x in c if x and " " not in x]
                return rng.choice(c)
            if rng.random() < 0.06:
                # beyond the range of int: the range check and esl_opt_GetInteger both read the string with atoi()
                # (= (int) strtol on glibc: clamp to long, keep the low 32 bits), so 2^32+k is the integer k for both
                k = self.int_in(o)
                big = rng.choice([2 ** 31 - 1, 2 ** 31, -2 ** 31, -2 ** 31 - 1, 2 ** 32 - 1, 2 ** 32, 2 ** 32 + k, -2 ** 32 + k, 2 ** 33 + k,
                                  2 ** 63 - 1, 2 ** 63, -2 ** 63, -2 ** 63 - 1, 2 ** 64, 2 ** 64 + k, 10 ** 20 + 7, -10 ** 24, 3 * 2 ** 32 + k,
                                  int("9" * rng.choice([10, 19, 20, 25]))])
                self.stats["bigint"] = self.stats.get("bigint", 0) + 1
                return str(big)
            s = str(self.int_in(o))
            q = rng.random()
            if q < 0.05 and not s.startswith("-"):
                s = "+" + s
            elif q < 0.08:
                s = s.replace("-", "-00") if s.startswith("-") else "00" + s
            elif q < 0.10 and where != "cfg":
                s = rng.choice([" " + s, s + " ", "\t" + s])
            return s
        if ty == REAL:
            if bad:
                self.stats["badvalue"] += 1
                v = self.real_out(o)
                g = rng.choice([x for x in GARBAGE if x not in "eE"])
                c = ["abc", "1.2.3", "", "1e", ".", "e5", "1,5", "--1", "+-1", "1.5x", ".e1", self.real_in(o) + g, self.real_in(o) + g,
                     g + self.real_in(o).lstrip("+-")] + ([v] * 12 if v is not None else [])
                if where == "cfg":
                    c = [x for x in c if x]
                return rng.choice(c)
            s = self.real_in(o)
            if rng.random() < 0.03 and where != "cfg":
                s = " " + s
            return s
        if ty == CHAR:
            if bad:
                self.stats["badvalue"] += 1
                v = self.char_out(o)
                c = ["ab", "xyz", "10"] + ([v] * 6 if v is not None else [])
                return rng.choice(c)
            if where != "cfg" and rng.random() < 0.04:
                return ""                      # the empty string passes the length check; its "character" is NUL
            return self.char_in(o)
        # strings
        c = ["file1", "out.txt", "x", "a=b", "www.example.org", "7", "hi!", "+plus", "v" * rng.choice([1, 3, 20, 126, 127, 128, 129, 300])]
        if where == "cmd":
            c += ["-", "two words", ""] + (["-dash", "--dd"] if rng.random() < 0.4 else [])
        if where == "env":
            c += ["-dash", "two words", ""]
        if where == "cfg":
            c += ["one two three", "quoted arg"]
        return rng.choice(c)

    # ---------------------------------------------------------------- command line
    def argv(self, t):
        rng = self.rng
        st = self.stats
        words = []
        nitems = rng.choice([0, 1, 1, 2, 2, 3, 3, 4, 5, 6])
        if rng.random() < 0.8:
            nitems = min(nitems, len(t.opts))
        shorts = [o for o in t.opts if len(o["name"]) == 2]
        longs = [o for o in t.opts if o["name"].startswith("--")]
        flags_s = [o for o in shorts if o["type"] == NONE]
        used = set()
        for _ in range(nitems):
            r = rng.random()
            fresh = [o for o in t.opts if o["name"] not in used and o["name"] not in self.cmd_used]
            if not fresh:
                if rng.random() < 0.85:
                    break                          # every option is taken: setting one again is an "already set" error
                fresh = t.opts
            o = rng.choice(fresh if rng.random() < 0.93 else t.opts)
            used.add(o["name"])
            if r < 0.03:
                st["unknown"] += 1
                words.append(rng.choice(["--zzz", "-Z", "--nonesuch=3", "-?", "--fooo", "--" + o["name"].lstrip("-") + "q"]))
            elif r < 0.07:
                st["malformed"] += 1
                a = flags_s[0]["name"] if flags_s else "-a"
                words.append(rng.choice([a + "-", a + "-" + a[1], "--=5", "---", "-=", "--=", a + "=1", "--" + "=x", a + a[1],
                                         o["name"] + "=" if o["name"].startswith("--") else o["name"] + "-"]))
            elif o["name"].startswith("--"):
                nm = o["name"]
                if rng.random() < 0.4 and len(nm) > 3:
                    st["abbrev"] += 1
                    # shortest prefix that no other option name shares (or the full name when it is itself a prefix of another)
                    others = [x["name"] for x in t.opts if x["name"] != nm]
                    uniq = next((k for k in range(3, len(nm) + 1) if not any(x.startswith(nm[:k]) for x in others)), len(nm))
                    q = rng.random()
                    if q < 0.75:
                        nm = nm[:rng.randrange(uniq, len(nm) + 1)]          # unambiguous
                    elif q < 0.95:
                        nm = nm[:rng.randrange(3, len(nm))]                 # possibly ambiguous
                    else:
                        nm = nm[:2]
                if o["type"] == NONE:
                    if rng.random() < 0.05:
                        st["malformed"] += 1
                        words.append(nm + "=" + rng.choice(["1", "on", ""]))
                    else:
                        words.append(nm)
                else:
                    v = self.value(o, "cmd")
                    q = rng.random()
                    if q < 0.45:
                        st["eqform"] += 1
                        if rng.random() < 0.07:
                            v = ""                  # `--name=`: the empty string is the argument, nothing else is consumed
                            st["empty_attached"] = st.get("empty_attached", 0) + 1
                        words.append(nm + "=" + v)
                    elif q < 0.95:
                        words += [nm, v]
                    else:
                        words.append(nm)             # missing argument (or swallows the next word)
            else:
                # short option, possibly inside a cluster
                cl = ""
                if flags_s and rng.random() < 0.4:
                    st["cluster"] += 1
                    k = rng.choice([1, 1, 2, 3])
                    cand = [f for f in flags_s if f["name"] not in used and f["name"] not in self.cmd_used] or (flags_s if rng.random() < 0.15 else [])
                    for f in rng.sample(cand, min(k, len(cand))):
                        if f is not o:
                            cl += f["name"][1]
                            used.add(f["name"])
                if o["type"] == NONE:
                    words.append("-" + cl + o["name"][1])
                else:
                    v = self.value(o, "cmd")
                    q = rng.random()
                    if q < 0.45 and v != "":
                        words.append("-" + cl + o["name"][1] + v)
                    elif q < 0.95:
                        words += ["-" + cl + o["name"][1], v]
                    else:
                        words.append("-" + cl + o["name"][1])
        # end of options
        r = rng.random()
        if r < 0.3:
            st["dashdash"] += 1
            words.append("--")
            pool = ["file1", "-x", "--foo", "-", "--", "2005", "+a", ""] + [o["name"] for o in t.opts[:3]]
        else:
            pool = ["file1", "arg2", "2005", "-", "+a", "+5", "a=b", ""]
        nargs = rng.choice([0, 0, 1, 2, 2, 3])
        args = [rng.choice(pool) for _ in range(nargs)]
        if r >= 0.3 and args and args[0] == "" and rng.random() < 0.5:
            args[0] = "file1"
        if any(a.startswith("+") for a in args):
            st["plus_words"] += 1
        words += args
        if r >= 0.3 and args and rng.random() < 0.3 and t.opts:
            words.append(rng.choice(t.opts)["name"])      # an option after the first argument is an argument
        words = words[:12]
        self.cmd_used |= used
        st["words"] += len(words)
        return ["prog"] + words

    def spoof_text(self, argv):
        """join argv into a spoofed command line; words needing quotes are quoted, unquotable ones replaced"""
        out = []
        for i, w in enumerate(argv):
            if w == "" or '"' in w or "\n" in w or "\t" in w:
                w = "w%d" % i
            if " " in w:
                if w.startswith("-") and "=" in w:      # --foo=two words cannot be expressed
                    w = w.replace(" ", "_")
                else:
                    w = '"' + w.strip() + '"' if w.strip() else "w"
            out.append(w)
        sep = self.rng.choice([" ", " ", "  ", "\t"])
        txt = ""
        for i, w in enumerate(out):
            if i:
                txt += " " if w.startswith('"') else sep      # a quoted word must follow exactly one blank
            txt += w
        r = self.rng.random()
        if r < 0.1:
            txt += self.rng.choice([" ", "  ", "\n", " \t"])
        elif r < 0.15:
            txt = " " + txt
        return txt

    # ---------------------------------------------------------------- environment, config file
    def env(self, t):
        rng = self.rng
        pairs = []
        for o in t.opts:
            if o["env"] and rng.random() < 0.6:
                v = rng.choice(["1", "", "yes"]) if o["type"] == NONE else self.value(o, "env")
                pairs.append((o["env"], v))
        if rng.random() < 0.1:
            pairs.append(("C14E_UNRELATED", "zzz"))
        return "env" + (" v=" + ",".join("%s:%s" % (hx(a), hx(b)) for a, b in pairs) if pairs else "")

    def cfg(self, t):
        """returns the text of a config file"""
        rng = self.rng
        lines = []
        nl = rng.choice([0, 1, 1, 2, 3, 4, 6])
        pool = list(t.opts)
        rng.shuffle(pool)
        if rng.random() < 0.8:
            nl = min(nl, len(pool) + 1)
        for k in range(nl):
            r = rng.random()
            if r < 0.12:
                lines.append(rng.choice(["# a comment", "", "   ", "#", "\t# indented comment", "#" + "x" * rng.choice([10, 126, 127, 128, 129, 300])]))
                continue
            if r < 0.145:
                lines.append(rng.choice(["--zzz", "-Z 3", "notanoption", "foo bar", "--nonesuch arg", "=x"]))
                self.stats["unknown"] += 1
                continue
            o = pool[k % len(pool)] if rng.random() < 0.9 else rng.choice(t.opts)
            nm = o["name"]
            if nm.startswith("--") and len(nm) > 3 and rng.random() < 0.02:
                nm = nm[:-1]                                   # abbreviations are not allowed in config files
            ind = rng.choice(["", "", "", " ", "\t"])
            if o["type"] == NONE:
                q = rng.random()
                line = ind + nm + (rng.choice(["  # comment", " #c", "\t"]) if q < 0.2 else "")
                if q > 0.97:
                    line = ind + nm + rng.choice([" extra stuff", " ;c", " 1", " on #c", " //"])   # argument to a flag / trailing garbage
            else:
                v = self.value(o, "cfg")
                q = rng.random()
                if q < 0.025:
                    line = ind + nm                            # missing argument (usage error since fix 8d4fde4)
                    self.stats["cfg_missing_arg"] += 1
                elif " " in v:
                    line = ind + nm + ' "' + v + '"' + rng.choice(["", " # comment", "\t#c"])
                elif v == "" or v.startswith("#") or '"' in v:
                    line = ind + nm + " val"
                else:
                    sep = rng.choice([" ", " ", "  ", "\t", " \t "])
                    line = ind + nm + sep + v + rng.choice(["", "", "", " # comment", " # comment", "\t#", " #", " trailing", " ;c", " //c", " -x", " ="] if q < 0.15 else [""])
            lines.append(line)
        txt = "\n".join(lines)
        if lines and rng.random() < 0.85:
            txt += "\n"
        return txt

    # ---------------------------------------------------------------- prefix pairs
    PAIRS = [("--seed", "--seedfile"), ("--mul", "--multi"), ("--out", "--output"), ("--n", "--no-b"), ("--max", "--max-n"),
             ("--a", "--ab"), ("--in", "--inc"), ("--x1", "--x12")]

    def prefix_pair_case(self, cid):
        """an option whose full name is a proper prefix of another option's name, used in every command-line form:
        `--opt=value`, `--opt value`, exact name as flag, and abbreviations of the longer name"""
        rng = self.rng
        short, long_ = rng.choice(self.PAIRS)
        tys = rng.choice([(INT, STRING), (STRING, INT), (INT, NONE), (NONE, INT), (REAL, STRING), (STRING, NONE), (NONE, NONE), (CHAR, INT), (INT, INT)])
        rows = [{"name": short, "type": tys[0]}, {"name": long_, "type": tys[1]}]
        if rng.random() < 0.5:
            rows.reverse()                                   # the longer name may come first in the table
        extra = [{"name": "-a", "type": NONE}, {"name": "-n", "type": INT}, {"name": "--zeta", "type": STRING}]
        rng.shuffle(extra)
        rows = rows + extra[:rng.randrange(0, 4)]
        if rng.random() < 0.5:
            rng.shuffle(rows)
        t = Table()
        for r in rows:
            o = {"name": r["name"], "type": r["type"], "def": None, "env": None, "range": None, "tog": None, "req": None, "inc": None}
            self.fill_range_default(o)
            if o["type"] == INT and rng.random() < 0.5:
                o["range"], o["lo"], o["hi"] = None, None, None
            t.opts.append(o)
        byname = {o["name"]: o for o in t.opts}
        ops = t.lines() + ["create"]
        sticky = len(ops)
        for _ in range(rng.choice([1, 2, 3])):
            words = ["prog"]
            for nm in rng.sample([short, long_], rng.choice([1, 2, 2])):
                o = byname[nm]
                spell = nm
                q = rng.random()
                if nm == long_ and q < 0.4:
                    spell = nm[:rng.randrange(len(short) + 1, len(nm) + 1)]      # abbreviation longer than the short name
                elif nm == long_ and q < 0.5:
                    spell = nm[:rng.randrange(3, len(short) + 1)] if len(short) >= 3 else nm   # ambiguous or = the short name
                if o["type"] == NONE:
                    words.append(spell if rng.random() < 0.9 else spell + "=1")
                else:
                    v = self.value(o, "cmd")
                    r = rng.random()
                    if r < 0.6:
                        words.append(spell + "=" + v)
                    elif r < 0.95:
                        words += [spell, v]
                    else:
                        words.append(spell)
            words += rng.choice([[], ["file1"], ["--", "-x"], ["arg", "--seed=1"]])
            if rng.random() < 0.25:
                ops.append("spoof s=" + hx(self.spoof_text(words)))
            else:
                ops.append("cmdline w=" + ",".join(hx(w) for w in words))
            ops.append("dump")
            if rng.random() < 0.5:
                ops.append("reuse")
        ops += ["verify", "dump"]
        self.stats["prefix_pair_cases"] += 1
        return {"name": "pair%d" % cid, "ops": ops, "sticky": sticky}

    # ---------------------------------------------------------------- several config files, same options
    LENS = [1, 2, 3, 4, 7, 8, 9, 15, 16, 17, 23, 24, 25, 31, 32, 33, 63, 64, 65, 127, 128, 129, 200]

    def sized_value(self, o, L):
        """a valid argument for o of exactly L characters where the type allows it"""
        rng = self.rng
        ty = o["type"]
        if ty == INT:
            d = str(rng.randrange(0, 10 ** min(L, 9)))
            return d.rjust(L, "0")
        if ty == REAL:
            if L == 1:
                return str(rng.randrange(0, 10))
            ip = str(rng.randrange(0, 100))
            fr = str(rng.randrange(0, 1000))
            t = ip + "." + fr
            return (t + "0" * (L - len(t))) if len(t) <= L else t[:L].rstrip(".").ljust(L, "0") if "." in t[:L - 1] else str(rng.randrange(0, 10)) + "." + "5" * (L - 2) if L <= 6 else ip[:1] + "." + "25".ljust(L - 2, "0")
        if ty == CHAR:
            return rng.choice("abcxyzABC0189_%")
        alphabet = rng.choice(["v", "abcdefghij", "0123456789", "aZ.-_/"])
        v = "".join(rng.choice(alphabet) for _ in range(L))
        return ("a" + v[1:]) if v[0] in "-" else v          # a string argument starting with '-' is refused on the command line

    def multicfg_case(self, cid):
        """histories in which several config files (and other sources in between) set the SAME argument-taking options
        with values of decreasing / equal / increasing length: the block set_option copies a config-file value into is
        reused when it is large enough, and every dump shows the exact stored string and the block size"""
        rng = self.rng
        t = Table()
        nopt = rng.choice([1, 2, 3, 4, 5])
        kinds = [STRING, STRING, INT, REAL, CHAR, 5, 6]
        for k in range(nopt):
            ty = rng.choice(kinds)
            nm = rng.choice(["-" + "nxcsio"[k], "--opt%d" % k]) if k < 6 else "--opt%d" % k
            o = {"name": nm, "type": ty, "def": None, "env": None, "range": None, "tog": None, "req": None, "inc": None}
            if rng.random() < 0.6:
                o["def"] = {INT: "0", REAL: "0.5", CHAR: "x"}.get(ty, rng.choice(["", "dflt", "default-value-of-some-length"]))
            if rng.random() < 0.5:
                o["env"] = "C14M%d_%d" % (k, cid % 89)
            t.opts.append(o)
        if rng.random() < 0.5:
            t.opts.append({"name": "-b", "type": NONE, "def": None, "env": None, "range": None, "tog": None, "req": None, "inc": None})
        strs = [o for o in t.opts if o["type"] >= STRING]
        if len(strs) >= 2 and rng.random() < 0.4:
            a, b = strs[0], strs[1]                 # a toggle-tied pair of string options: setting one frees the other's block
            a["tog"], b["tog"] = b["name"], a["name"]
            if a["def"] is not None and b["def"] is not None:
                b["def"] = None
        ops = t.lines() + ["create"]
        sticky = len(ops)
        argopts = [o for o in t.opts if o["type"] != NONE]
        last_len = {}
        nsrc = rng.choice([2, 3, 3, 4, 5, 6])
        trend = rng.choice(["down", "up", "equal", "mixed", "mixed", "saw"])
        spoofed = cmd = envd = False
        for k in range(nsrc):
            r = rng.random()
            chosen = [o for o in argopts if rng.random() < 0.8] or argopts[:1]
            def newlen(o):
                prev = last_len.get(o["name"])
                if prev is None:
                    L = rng.choice(self.LENS)
                else:
                    tr = trend if trend not in ("mixed", "saw") else (rng.choice(["down", "up", "equal"]) if trend == "mixed" else ("down" if k % 2 else "up"))
                    if tr == "down":
                        L = rng.choice([max(1, prev - 1), max(1, prev // 2), 1, max(1, prev - rng.randrange(1, 9))])
                    elif tr == "up":
                        L = rng.choice([prev + 1, prev * 2, prev + rng.randrange(1, 9)])
                    else:
                        L = prev
                if o["type"] == INT:
                    L = min(L, 40)
                last_len[o["name"]] = L
                return L
            if r < 0.72:
                lines = []
                for o in chosen:
                    v = self.sized_value(o, newlen(o))
                    last_len[o["name"]] = len(v)
                    lines.append(o["name"] + rng.choice([" ", "\t", "  "]) + v + rng.choice(["", "", " # c"]))
                if rng.random() < 0.2 and any(o["type"] == NONE for o in t.opts):
                    lines.insert(rng.randrange(0, len(lines) + 1), "-b")
                if rng.random() < 0.06:
                    lines.append(chosen[0]["name"] + " again")          # second setting in the same file: usage error, value kept
                if rng.random() < 0.05:
                    lines.insert(rng.randrange(0, len(lines) + 1), "--nonesuch 1")
                rng.shuffle(lines) if rng.random() < 0.3 else None
                ops.append("cfg s=" + hx("\n".join(lines) + "\n"))
                self.stats["cfg"] += 1
            elif r < 0.82 and not envd and any(o["env"] for o in chosen):
                envd = True
                pairs = []
                for o in chosen:
                    if o["env"]:
                        v = self.sized_value(o, newlen(o))
                        last_len[o["name"]] = len(v)
                        pairs.append((o["env"], v))
                ops.append("env v=" + ",".join("%s:%s" % (hx(a), hx(b)) for a, b in pairs))
                self.stats["env"] += 1
            elif r < 0.94 and not cmd:
                cmd = True
                words = ["prog"]
                for o in chosen[:rng.choice([1, 1, 2, 5])]:
                    v = self.sized_value(o, newlen(o))
                    last_len[o["name"]] = len(v)
                    words += [o["name"], v]
                words += rng.choice([[], ["file1"]])
                if rng.random() < 0.3 and not spoofed:
                    spoofed = True
                    ops.append("spoof s=" + hx(" ".join(words)))
                    self.stats["spoof"] += 1
                else:
                    ops.append("cmdline w=" + ",".join(hx(w) for w in words))
                    self.stats["cmdline"] += 1
            else:
                ops.append("reuse")
                last_len = {}
                spoofed = cmd = envd = False
                self.stats["reuse"] += 1
            ops.append("dump")
        ops += ["verify", "dump"]
        self.stats["multicfg_cases"] = self.stats.get("multicfg_cases", 0) + 1
        return {"name": "mcfg%d" % cid, "ops": ops, "sticky": sticky}

    # ---------------------------------------------------------------- strtod
    def dec_string(self, n, k):
        """the decimal string of the integer n scaled by 10^-k, in a random spelling"""
        rng = self.rng
        digs = str(n)
        r = rng.random()
        if k == 0 and r < 0.5:
            t = digs
        elif r < 0.6:
            d2 = digs.rjust(k + 1, "0")
            t = d2[:len(d2) - k] + "." + d2[len(d2) - k:] if k else digs + rng.choice(["", ".", ".0"])
        else:
            sh = rng.randrange(0, len(digs) + 1)                       # digs[:sh] . digs[sh:]  e  (len-sh-k)
            t = (digs[:sh] or rng.choice(["", "0"])) + "." + digs[sh:] if sh < len(digs) or rng.random() < 0.5 else digs
            e = (len(digs) - sh) - k if "." in t else -k
            if t.startswith("."):
                t = rng.choice(["", "0"]) + t
            if t.endswith(".") and len(t) == 1:
                t = "0."
            t += "%s%s%d" % (rng.choice("eE"), "+" if e >= 0 and rng.random() < 0.3 else "", e)
        return rng.choice(["", "", "", "-", "+"]) + rng.choice(["", "", "0", "00"]) + t if not t.startswith(".") else t

    def atof_string(self):
        rng = self.rng
        r = rng.random()
        if r < 0.25:       # plain random decimal, 1-40 digits, any exponent
            nd = rng.choice([1, 2, 3, 6, 15, 16, 17, 18, 19, 20, 21, 25, 40])
            n = rng.randrange(10 ** (nd - 1), 10 ** nd) if nd > 1 else rng.randrange(0, 10)
            return self.dec_string(n, rng.choice([0, 0, 1, 2, 5, nd, nd + 3, rng.randrange(0, 340), -rng.randrange(0, 300) if False else rng.randrange(0, 30)])) \
                if rng.random() < 0.7 else "%d%s%d" % (n, rng.choice("eE"), rng.randrange(-345, 310))
        if r < 0.55:       # an exact tie between two adjacent doubles (or next to one): (2q+1) * 2^(e-1)
            q = rng.randrange(2 ** 52, 2 ** 53) if rng.random() < 0.8 else rng.choice([2 ** 52, 2 ** 53 - 1, 2 ** 52 + 1])
            odd = 2 * q + 1
            if rng.random() < 0.5:
                n, k = odd * 2 ** rng.randrange(0, 60), 0
            else:
                k = rng.randrange(1, 40)
                n = odd * 5 ** k                                       # odd * 2^-k exactly
            d = rng.random()
            if d < 0.4:
                pass                                                   # the tie itself: to even
            elif d < 0.6:
                n, k = n * 10 ** 6 + rng.choice([1, 999999]), k + 6     # just above (sticky digits far right)
            elif d < 0.8:
                n, k = n * 10 ** 6 - rng.choice([1, 999999]), k + 6     # just below
            else:
                n, k = n * 10 ** 30 + 1, k + 30
            return self.dec_string(n, k)
        if r < 0.7:        # subnormals and the underflow boundary
            q = rng.choice([1, 2, 3, rng.randrange(1, 2 ** 52), 2 ** 52 - 1, 2 ** 52])
            kind = rng.random()
            if kind < 0.5:
                n = (2 * q + rng.choice([0, 1, 1])) * 5 ** 1075           # q or q+1/2 units of 2^-1074, exactly
                n = n + rng.choice([0, 0, 1, -1]) if n > 1 else n
                return self.dec_string(n, 1075) if rng.random() < 0.5 else "%de-1075" % n
            return "%d.%de-%d" % (rng.randrange(1, 10), rng.randrange(0, 10 ** 16), rng.choice([307, 308, 309, 310, 315, 320, 323, 324, 325, 330, 400]))
        if r < 0.8:        # overflow boundary: 2^1024 - 2^970 is the tie between DBL_MAX and "2^1024"
            n = 2 ** 1024 - 2 ** 970 + rng.choice([0, 0, 1, -1, 10 ** 280, -10 ** 280, 2 ** 970, -2 ** 971])
            return str(n) if rng.random() < 0.6 else self.dec_string(n, 0)
        if r < 0.9:        # 15-17 digit values (what %.17g prints)
            return repr(rng.uniform(-1, 1) * 10 ** rng.randrange(-30, 30))
        return rng.choice(["abc", "", ".", "e5", "1e", "1e+", "1e-", ".5", "5.", "+.5e-3", "-.e1", "1.5x", "1e5x", " 2.5", "\t-1e2 ", "2.5 ", "1 2", "+", "-", "--1",
                           "1..2", "1.2.3", "1e2e3", "1e2.5", "00", "-0", "0e0", "0.000", "1e400", "-1e400", "1e-400", "123456789012345678901234567890"])

    def atof_case(self, cid):
        ops = ["atof s=" + hx(self.atof_string()) for _ in range(30)]
        self.stats["atof_ops"] = self.stats.get("atof_ops", 0) + len(ops)
        return {"name": "atof%d" % cid, "ops": ops, "sticky": 0}

    # ---------------------------------------------------------------- real range on doubles
    @staticmethod
    def frac_dec(fr):
        """exact decimal string of a dyadic rational (fractions.Fraction with a power-of-two denominator)"""
        neg = fr < 0
        fr = -fr if neg else fr
        k = fr.denominator.bit_length() - 1
        n = fr.numerator * 5 ** k
        d = str(n).rjust(k + 1, "0")
        t = d[:len(d) - k] + ("." + d[len(d) - k:] if k else "")
        return ("-" if neg else "") + t

    def realrange_case(self, cid):
        """verify_real_range compares DOUBLES: arguments of 16-60 digits at, next to and half-way between the doubles
        around a bound (where the exact decimal order and the order of the rounded values differ)"""
        import math
        from fractions import Fraction
        rng = self.rng
        ops = []
        for _ in range(24):
            b = rng.choice(["0", "1", "0.1", "0.3", "-0.1", "2.5", "1e-3", "100", "1e22", "1e23", "-1.5", "0.7", "1e-320", "4.9e-324", "1.7976931348623157e308",
                            "0.1000000000000000055511151231257827", "3.14159265358979323846264338327950288", "9007199254740993", "1e-5", "-2.2250738585072014e-308",
                            repr(rng.uniform(-10, 10)), "%d.%d" % (rng.randrange(0, 100), rng.randrange(0, 10 ** 20))])
            form = rng.choice(["x>=%s", "x>%s", "x<=%s", "x<%s", "%s<=x<=LIM", "%s<x<LIM", "LO<=x<=%s", "LO<x<%s"])
            f = float(b)
            rtext = (form % b).replace("LIM", repr(abs(f) * 2 + 1) if math.isfinite(f) else "1e400").replace("LO", repr(-abs(f) * 2 - 1))
            up, dn = math.nextafter(f, math.inf), math.nextafter(f, -math.inf)
            F = Fraction(f)
            cands = [F]
            if math.isfinite(up):
                cands += [(F + Fraction(up)) / 2, Fraction(up)]
            if math.isfinite(dn):
                cands += [(F + Fraction(dn)) / 2, Fraction(dn)]
            c = rng.choice(cands)
            t = self.frac_dec(c)
            k = rng.random()
            if k < 0.35:
                v = t                                            # exactly a double / exactly a tie
            elif k < 0.6:
                v = (t if "." in t else t + ".") + "0" * rng.randrange(0, 5) + "1"          # a hair above
            elif k < 0.85:
                # a hair below: decrement the last digit string
                digs = t.replace("-", "").replace(".", "")
                n = int(digs) * 1000 - 1
                kk = (len(t.split(".")[1]) if "." in t else 0) + 3
                d2 = str(abs(n)).rjust(kk + 1, "0")
                v = ("-" if t.startswith("-") else "") + d2[:len(d2) - kk] + "." + d2[len(d2) - kk:] if n >= 0 else "-0.001"
            else:
                v = rng.choice([b, repr(f), "%.20g" % f, "%.17g" % up, "%.17g" % dn, "0", "-0", "1e400", "-1e400", "abc", "", "1e-400"])
            if len(v) > 1200:
                v = repr(f)
            v, rtext = v.replace("inf", "1e400"), rtext.replace("inf", "1e400")     # (the `inf` spelling is not modelled; an overflowing decimal is)
            ops.append("realrange r=%s v=%s" % (hx(rtext), hx(v)))
        self.stats["realrange_ops"] = self.stats.get("realrange_ops", 0) + len(ops)
        return {"name": "rrng%d" % cid, "ops": ops, "sticky": 0}

    # ---------------------------------------------------------------- esl_getopts_CreateDefaultApp
    def defapp_case(self, cid):
        """the standard application start-up: Create + ProcessCmdline + VerifyConfig, then -h -> help page and exit(0),
        wrong number of arguments -> exit(1), usage error -> exit(1), else the object is returned"""
        rng = self.rng
        for _ in range(20):
            t = self.table(cid)
            if all(not o["name"].startswith("-h") for o in t.opts):
                break
        else:
            t = Table()
        t.opts.append({"name": "-h", "type": NONE, "def": None, "env": None, "range": None, "tog": None, "req": None, "inc": None})
        ops = t.lines()
        sticky = len(ops)
        for _ in range(rng.choice([2, 3, 4])):
            self.cmd_used = set()
            words = self.argv(t)
            if rng.random() < 0.25:
                words.insert(rng.randrange(1, len(words) + 1), rng.choice(["-h", "-h", "-" + "h" * 2]))
            nopt_args = rng.choice([-1, -1, 0, 1, 2, 3])
            ops.append("defapp nargs=%d w=%s" % (nopt_args, ",".join(hx(w) for w in words)))
            self.stats["defapp_ops"] = self.stats.get("defapp_ops", 0) + 1
        return {"name": "dapp%d" % cid, "ops": ops, "sticky": sticky}

    # ---------------------------------------------------------------- ill-formed tables
    DEFECTS = ["dupname", "unknown_tog", "unknown_req", "unknown_inc", "bad_default", "string_range", "unknown_type", "bad_range",
               "no_dash", "tog_int", "empty_elem", "abbrev_elem"]

    def illformed_case(self, cid):
        """a table with one or two defects (duplicate names, option lists naming unknown options, bad defaults, a range on
        a string option, unknown type codes, malformed range strings, names without '-'): Create returns NULL for the
        defects it checks (names, defaults) and accepts the others, which are reported when first used; never a crash"""
        rng = self.rng
        t = self.table(cid)
        self.cmd_used = set()
        defects = rng.sample(self.DEFECTS, rng.choice([1, 1, 2]))
        for d in defects:
            o = rng.choice(t.opts)
            if d == "dupname" and len(t.opts) >= 2:
                a, b = rng.sample(range(len(t.opts)), 2)
                t.opts[b]["name"] = t.opts[a]["name"]
            elif d in ("unknown_tog", "unknown_req", "unknown_inc"):
                fld = {"unknown_tog": "tog", "unknown_req": "req", "unknown_inc": "inc"}[d]
                bad = rng.choice(["--nonesuch", "-Z", "zz", "--" + o["name"].lstrip("-") + "qq"])
                cur = o[fld]
                o[fld] = bad if not cur else rng.choice([cur + "," + bad, bad + "," + cur])
            elif d == "bad_default":
                ty = o["type"]
                if ty == INT:
                    v = self.int_out(o)
                    o["def"] = rng.choice(["abc", "1.5", "", "12x"] + ([str(v)] * 3 if v is not None else []))
                elif ty == REAL:
                    v = self.real_out(o)
                    o["def"] = rng.choice(["abc", "1.2.3", "", "1e"] + ([v] * 3 if v is not None else []))
                elif ty == CHAR:
                    v = self.char_out(o)
                    o["def"] = rng.choice(["ab", "xyz"] + ([v] * 2 if v is not None else []))
                else:
                    o["type"] = INT
                    self.fill_range_default(o)
                    o["def"], o["range"], o["lo"], o["hi"] = "seven", None, None, None
            elif d == "string_range":
                o["type"], o["range"] = rng.choice([STRING, 5, 6]), rng.choice(["s<3", "n>0", ""])
                o["def"] = rng.choice([None, None, "v"])
            elif d == "unknown_type":
                o["type"], o["def"] = rng.choice([7, 8, 9, 100]), rng.choice([None, None, "v"])
            elif d == "bad_range":
                o["type"] = rng.choice([INT, REAL, CHAR])
                self.fill_range_default(o)             # helper bounds of the new type (values are drawn from them)
                v = {INT: "n", REAL: "x", CHAR: "c"}[o["type"]]
                o["range"] = rng.choice(["", "z", v, v + "=5", "5<" + v, "5=<" + v + "<7", v + ">", "=" + v + "<5", "=" + v + "<=5", "=" + v, "1<=" + v + ">=0", "<" + v + "<5",
                                         v + "<", "0<" + v, "0<=" + v + "<", v + v + "<3", "3>" + v]).replace("5", "e" if o["type"] == CHAR else "5")
                o["def"] = rng.choice([None, {INT: "3", REAL: "0.5", CHAR: "d"}[o["type"]]])
            elif d == "no_dash":
                o["name"] = rng.choice(["x", "", "n-", "+a", " -a"])
            elif d == "tog_int":
                ints = [x for x in t.opts if x["type"] in (INT, REAL, CHAR)]
                if ints:
                    o["tog"] = ints[0]["name"]
            elif d == "empty_elem":
                fld = rng.choice(["tog", "req", "inc"])
                o[fld] = rng.choice([",", (o[fld] or "") + ",", "," + (o[fld] or t.opts[0]["name"]), t.opts[0]["name"] + ",," + t.opts[-1]["name"]])
            elif d == "abbrev_elem":
                fld = rng.choice(["tog", "req", "inc"])
                o[fld] = t.opts[-1]["name"][:-1] if len(t.opts[-1]["name"]) > 2 else "-"
        ops = t.lines() + ["create raw=1"]
        sticky = len(ops)
        nsteps = 0 if any(len(o["name"]) < 2 for o in t.opts) else rng.choice([1, 2, 3])     # (Create refuses such a name anyway)
        for _ in range(nsteps):
            r = rng.random()
            if r < 0.5:
                ops.append("cmdline w=" + ",".join(hx(w) for w in self.argv(t)))
                self.cmd_used = set()
            elif r < 0.75:
                ops.append("cfg s=" + hx(self.cfg(t)))
            else:
                ops.append(self.env(t))
            ops += ["dump"] if rng.random() < 0.6 else []
            if rng.random() < 0.3:
                ops += ["verify", "reuse"]
        ops += ["verify", "dump"]
        self.stats["illformed_cases"] = self.stats.get("illformed_cases", 0) + 1
        for d in defects:
            self.stats["ill_" + d] = self.stats.get("ill_" + d, 0) + 1
        return {"name": "ill%d" % cid, "ops": ops, "sticky": sticky}

    # ---------------------------------------------------------------- a case
    def case(self, cid):
        if cid % 25 == 7:
            return self.prefix_pair_case(cid)
        if cid % 25 in (3, 17):
            return self.illformed_case(cid)
        if cid % 25 == 9:
            return self.atof_case(cid)
        if cid % 50 == 11:
            return self.defapp_case(cid)
        if cid % 50 == 36:
            return self.realrange_case(cid)
        if cid % 25 in (13, 21):
            return self.multicfg_case(cid)
        rng = self.rng
        t = self.table(cid)
        self.cmd_used = set()                      # options already set on an earlier command line of this case
        ops = t.lines() + ["create"]
        sticky = len(ops)
        for _ in range(rng.choice([0, 0, 0, 1, 2])):
            ops.append(t.help_op(rng))
            self.stats["help_ops"] = self.stats.get("help_ops", 0) + 1
        nsrc = rng.choice([1, 1, 2, 2, 3, 3, 4, 5])
        kinds = []
        no_argv0 = False
        spoofed = False
        ncmd = nenv = 0
        for _ in range(nsrc):
            r = rng.random()
            # a second command line / environment pass mostly collides with the first ("already set"): keep it rare
            if r < 0.45 and ncmd and rng.random() < 0.8:
                r = 0.75
            if 0.45 <= r < 0.7 and nenv and rng.random() < 0.8:
                r = 0.75
            if r < 0.45:
                ncmd += 1
                if spoofed and rng.random() < 0.15:
                    # a second spoofed command line on the same object: eslEINVAL + message, object unchanged (fix df08745)
                    kinds.append("spoof2")
                    ops.append("spoof s=" + hx(self.spoof_text(self.argv(t))))
                    ops.append("dump")
                    self.stats["spoof_twice"] += 1
                    continue
                if rng.random() < 0.3 and not spoofed:
                    spoofed = True
                    kinds.append("spoof")
                    ops.append("spoof s=" + (hx(self.spoof_text(self.argv(t))) if rng.random() < 0.93 else rng.choice(["-", hx(" "), hx("prog")])))
                    self.stats["spoof"] += 1
                else:
                    kinds.append("cmdline")
                    ops.append("cmdline w=" + ",".join(hx(w) for w in self.argv(t)))
                    self.stats["cmdline"] += 1
            elif r < 0.7:
                nenv += 1
                kinds.append("env")
                ops.append(self.env(t))
                self.stats["env"] += 1
            else:
                kinds.append("cfg")
                ops.append("cfg s=" + hx(self.cfg(t)))
                self.stats["cfg"] += 1
            if rng.random() < 0.4:
                ops.append("dump")
            last_src = ops[-2] if ops[-1] == "dump" else ops[-1]
            if last_src in ("spoof s=-", "spoof s=20"):
                no_argv0 = True                    # an empty spoofed command line: argc = 0, there is no argv[0] to print
            if not no_argv0 and rng.random() < 0.2:
                ops.append("dumptext")             # esl_getopts_Dump
                self.stats["dumptext"] = self.stats.get("dumptext", 0) + 1
            if kinds[-1] in ("cmdline", "spoof") and last_src not in ("spoof s=-", "spoof s=20") and rng.random() < 0.35:
                ops.append("spoofcmd")             # esl_opt_SpoofCmdline needs a processed command line (argv[0])
                self.stats["spoofcmd"] = self.stats.get("spoofcmd", 0) + 1
            if rng.random() < 0.05:
                ops += ["reuse", "dump"]           # back to defaults; a new spoofed command line is allowed again
                no_argv0 = False
                spoofed = False
                self.cmd_used = set()
                ncmd = nenv = 0
                self.stats["reuse"] += 1
        ops += ["verify", "dump"]
        if rng.random() < 0.15:
            # the same sources again in another order on the re-used object (processing order = precedence)
            srcs = [o for o in ops[sticky:] if o.split()[0] in ("cmdline", "spoof", "env", "cfg")]
            if "reuse" not in ops and len(srcs) >= 2:
                srcs = srcs[::-1] if rng.random() < 0.5 else rng.sample(srcs, len(srcs))
                ops += ["reuse"] + srcs + ["verify", "dump"]
                self.stats["reordered"] += 1
        return {"name": "gen%d" % cid, "ops": ops, "sticky": sticky}


def opt_line(name, ty, de=None, env=None, rng=None, tog=None, req=None, inc=None):
    return "opt name=%s type=%d def=%s env=%s range=%s tog=%s req=%s inc=%s" % (hx(name), ty, hx(de), hx(env), hx(rng), hx(tog), hx(req), hx(inc))


def utest_table():
    B = "-b,--no-b"
    return [opt_line("-a", 0, None, "C14FOOTEST"), opt_line("-b", 0, None, None, None, B), opt_line("--no-b", 0, "TRUE", None, None, B),
            opt_line("-c", 3, "x", None, "a<=c<=z"), opt_line("--d1", 0, "TRUE", None, None, "--d2"), opt_line("--d2", 0, None, None, None, "--d1"),
            opt_line("-n", 1, "0", None, "0<=n<10"), opt_line("-x", 2, "0.8", None, "0<x<1"), opt_line("--lowx", 2, "1.0", None, "x>0"),
            opt_line("--hix", 2, "0.9", None, "x<1"), opt_line("--lown", 1, "42", None, "n>0", None, "-a,-b"),
            opt_line("--hin", 1, "-1", None, "n<0", None, None, "--no-b"), opt_line("--host", 4, "", "C14HOSTTEST"),
            opt_line("--multi", 4, None), opt_line("--mul", 0, None)]


def W(*words):
    return "cmdline w=" + ",".join(hx(w) for w in words)


class C14(Prop):
    id = "C14"
    lean_modules = ["EaselModel.Props.C14"]
    lean_exe = "c14_driver"
    harness = "h_getopts.c"
    theorems = ["EaselModel.Props.C14." + t for t in (
        "sources_are_setting_sequences_env", "sources_are_setting_sequences_cfg", "sources_are_setting_sequences_cmdline",
        "spoof_is_cmdline_of_its_words", "cfg_line_name_arg", "cfg_line_flag", "cfg_line_missing_argument", "cfg_line_unknown_option", "cfgfile_is_its_settings",
        "long_option_eq_form", "long_option_sep_form", "long_flag_form", "short_option_attached_form", "short_option_sep_form", "concatenated_short_flags",
        "successful_run_is_history", "successful_cfgfile_is_history", "successful_cmdline_is_history", "cmdline_success_is_history", "cfgfile_success_is_history", "environment_success_is_history", "parsed_settings_are_in_table", "cmdline_last_setter_wins", "cmdline_untouched_keeps_state", "last_setter_wins", "untouched_keeps_state", "fresh_object_all_default", "reuse_restores_defaults",
        "same_source_twice_is_usage_error", "set_after_toggle_by_same_source_is_usage_error",
        "set_option_spec", "toggle_switches_others_off", "optlist_element_denotes_named_option", "optlist_reads_back_names",
        "abbrev_full_name_resolves", "abbrev_resolves_iff_unique", "abbrev_ambiguous_iff_two", "abbrev_unknown_iff",
        "dashdash_ends_options", "first_nonoption_ends_options", "options_end_where_documented", "remaining_args_in_order", "plus_word_is_argument", "args_returned_in_order", "getArg_is_argv_from_optind",
        "every_history_ends_cleanly", "cmdline_ends_cleanly", "spoof_ends_cleanly", "environment_ends_cleanly", "configfile_ends_cleanly",
        "setting_succeeds_iff", "integer_argument_syntax", "real_argument_syntax", "real_argument_syntax_iff", "wf_is_computable", "strict_tables_are_wf", "created_object_every_history_clean", "char_argument_syntax", "rejected_setting_changes_nothing", "unknown_long_option", "ambiguous_long_option", "argument_to_flag",
        "missing_argument_long", "unknown_short_option", "verifyConfig_ok_iff_consistent",
        "int_range_two_sided", "int_range_lower", "int_range_upper", "range_string_two_sided", "char_range_two_sided", "real_range_two_sided", "real_range_two_sided_literal", "plain_decimal_is_real", "real_range_lower", "real_range_upper",
        "alloc_store_exact", "alloc_set_option_refines", "alloc_valloc_after_set", "alloc_source_refines", "alloc_cfg_text_args",
        "alloc_history_refines", "alloc_created_history", "alloc_reuse_is_fresh", "history_after_reuse_is_history_on_fresh_object",
        "create_on_any_table", "create_never_crashes", "create_does_not_check_lists", "unknown_name_in_toggle_list",
        "unknown_name_in_required_list", "set_option_crash_site_unreachable",
        "displayHelp_fails_iff", "displayHelp_output_documented", "spoofed_cmdline_lists_set_and_on_options", "spoofCmdline_never_crashes", "defaultApp_returns_iff",
        "flag_with_empty_value_is_usage_error", "empty_attached_value_is_the_argument", "empty_attached_value_consumes_nothing",
        "empty_value_rejected_by_numeric_types", "empty_value_stored_by_string_types", "empty_value_char_is_terminator",
        "real_range_two_sided_on_doubles", "real_range_two_sided_literal_on_doubles", "real_range_lower_on_doubles", "real_range_upper_on_doubles",
        "rounding_never_reorders_magnitudes", "lower_bound_on_doubles_is_monotone",
        "dump_tells_setters_apart", "dump_boolean_setting_is_IsOn", "dump_never_crashes",
        "accepted_integer_satisfies_range_as_getter_returns_it",
        "strtod_rounds_to_nearest", "strtod_exact_on_representable", "strtod_rounding_monotone_in_binade", "strtod_monotone",
        "real_range_test_monotone", "inclusive_real_bound_accepts_every_true_member",
        "isUsed_iff", "isDefault_of_default_setter", "not_default_has_setter", "demo_wf")]
    claimed = True
    diverge_is_violation = True    # every op is a deterministic documented function of (table, sources so far)
    technique = ("Lean 4 proof about an executable hand model of esl_getopts.c + exact differential correspondence of that model with the "
                 "ASan/UBSan-built library over random option tables x argv x environment x config files x processing orders")
    level_text = ("Theorems for every well-formed option table, every argv / environment / config-file content and every processing order, about the executable model: "
                  "each source is a table-only parse followed by a run of set_option calls that stops at the first usage error; after any history the last call touching an option decides its value and setter, untouched options keep their defaults, "
                  "a second setting by the same source is a usage error; a successful set_option switches off exactly the other listed toggle members that were on and records the setter; "
                  "an abbreviation resolves iff it is a full name or the prefix of exactly one name (ambiguous iff two, unknown iff none); '--' and the first non-option word end the options and GetArg returns the rest in order; "
                  "every Process* call ends as success-without-message or eslESYNTAX-with-message (never a crash or internal exception), rejected settings change nothing; VerifyConfig succeeds iff all requirements and incompatibilities hold; "
                  "IsUsed = not IsDefault and IsOn. Round 6: the byte-level allocation layer of set_option (do_alloc, valloc[], block reuse across config files) is modelled and proved to erase to the abstract model for every history (no block overrun or read without terminator; valloc = max(old, strlen+1) after a config-file setting, 0 after any other); "
                  "Create on ANY table returns NULL iff a name lacks '-' or a default fails its own check, ill-formed lists are reported as eslEINVAL at first use, never a crash; esl_opt_DisplayHelp's output is the documented function of the table (one aligned line per option of the docgroup, defaults/ranges for all lines or none, eslEINVAL iff even the bare layout does not fit; every line <= textwidth+2); "
                  "esl_opt_SpoofCmdline lists exactly the options that were set and are on; esl_getopts_CreateDefaultApp returns the object iff the command line parses, the configuration verifies, -h is off and the argument count is the required one (otherwise it exits); an accepted integer satisfies its range as esl_opt_GetInteger returns it (also beyond the int range); the strtod model (decimal -> nearest binary64, ties to even, subnormals, overflow) is exact on representable values, a nearest value otherwise, and monotone, so the real range test never reorders. The hand model is tied to the working tree by an exact differential run (12000 cases per quick run: random well-formed tables x sources, 8% ill-formed tables, multi-config-file histories with values of decreasing/equal/increasing length, help/spoof calls, 14000 strtod strings compared bit for bit with glibc); a divergence or monitor failure is a concrete failing input.")
    level_note = ("Trusted: Lean kernel + propext/Classical.choice/Quot.sound; fidelity of the hand model (incl. its strtol/strtod/strtok/fgets models) is checked, not proved, by the differential run; "
                  "'+/- prefixed booleans' clause is vacuous in this version (a '+' word is an argument: theorem plus_word_is_argument); history theorems for well-formed tables (ill-formed tables: Create / first-use theorems without hypothesis, IllFormed.lean); reals restricted to <= 15 significant digits (DBL_DIG) and the normal exponent range, where decimal order = double order; "
                  "integer, character and real range strings of the documented forms are proved to mean the intended bounds (reals: order of the denoted rationals; lower bounds written as plain decimal literals are proved to be read exactly; exponent spellings only by examples and the differential run). Round 6: the real range theorems still speak about exact decimals (agreeing with the doubles for <= 15 significant digits: not proved); the rounding model of Round.lean is proved exact/nearest/monotone and compared bit for bit with glibc's atof, and Round 6b restates verify_real_range over it (`realRangeOkD`, RealRound.lean: theorems real_range_*_on_doubles; `realrange` op: ~5 700 arguments of 16-60 digits at / next to / half-way between the doubles around each bound per run, compared exactly through Create+ProcessCmdline+GetReal). The history model still calls the exact-decimal test (identical for <= 15 digits), the double-based one is tied through the `realrange` op.")
    trusted_base = ["hand model of esl_getopts.c (+ esl_str_IsInteger/IsReal, esl_strtok from easel.c; byte-level allocation layer; strtod rounding) tied by exact differential run (h_getopts.c, ASan+UBSan build of the working tree)",
                    "Lean compiler/runtime for the executable driver", "gcc, glibc strtol/strtod/getenv/fgets"]
    assumptions = [
        "the statement's clause '+/- prefixed booleans set and unset' has no anchor in this version of esl_getopts.c or its documentation: a word starting with '+' is an ordinary command-line argument in code and model (generated and compared), so the clause is vacuous here",
        "the history theorems (a)-(f) assume well-formed option tables — checked on every generated well-formed table by the model driver (`wfStrictB`, proved to imply the theorems' hypothesis `WF`) (names '-c' or '--word', distinct; optlist elements resolve to the option of that exact name under process_optlist's first-prefix match; toggle lists name only boolean/string options; defaults satisfy their own type/range; string options have no range): ill-formed tables reach ESL_EXCEPTIONs by design",
        "real values: decimal spellings with <= 15 significant digits (DBL_DIG: distinct such decimals are distinct doubles in the same order) and decimal exponents within +-300, compared as exact rationals in the model (atof comparisons agree there; not proved in Lean); values just inside / outside each bound at up to 15 digits are generated; hex/inf/nan spellings and decimals that round (16+ digits) are not modelled and not generated",
        "bytes are ASCII (isspace/char comparison on bytes >= 0x80 not modelled)",
        "in a config file an argument after a boolean option is ignored by the code (documented format: 'an option and an argument (if the option takes an argument)'); modelled as is",
        "a second esl_opt_ProcessSpoof on one object is generated since fix df08745 (eslEINVAL + message, object unchanged); before that fix its error path freed the first spoof's buffers",
        "memory leaks are not part of C14's statement; LeakSanitizer stays on in the harness run (support only): a leak in esl_getopts.c would be reported as a fault",
        "set_option's allocation layer (do_alloc, valloc[], block reuse across config files, frees by the other sources / toggles / Reuse) is modelled byte by byte (Alloc.lean: malloc = junk without terminator, realloc keeps old bytes, strcpy keeps the tail) g->valloc[] is dumped and monitored (a block holds its string) but, being internal bookkeeping, not compared; the abstract model is proved to be its erasure",
        "ill-formed tables (duplicate names, unknown names / empty elements / abbreviations in option lists, bad defaults, ranges on string options, unknown type codes, malformed range strings, names without '-') are generated too (8% of the cases, `create raw=1`) and compared exactly; with duplicate names the query calls answer for the first option of that name (model and harness both resolve by name)",
        "esl_opt_DisplayHelp (pure function of the table; output compared byte for byte at widths around its three layout thresholds) and esl_opt_SpoofCmdline (after fix af97bd9) are modelled and compared exactly; the documentation's 'lines are not allowed to exceed textwidth' holds only up to +2 (the ' :' separator is not counted by the code when an option has a help string): proved bound textwidth+2, reported, not repaired (it would change the layout of every help page)",
        "integer arguments and bounds beyond the int range are generated (2^31, 2^32+k, 2^63, 20+ digits): range check and esl_opt_GetInteger read them with the same atoi() = (int) strtol (clamp to long, low 32 bits), modelled exactly; monitor: a value that passed its range check satisfies the range as GetInteger returns it",
        "esl_getopts_CreateDefaultApp is modelled as a function to its four endings (returned object / exit(0) after help / exit(1) usage error / exit(1) wrong argument count) and run in a forked child by the harness (`defapp` op); the text it prints is not compared beyond its first line's kind",
        "esl_getopts_Dump is modelled (DumpText.lean; an argument option that is off prints as glibc's `(null)`) and compared byte for byte (`dumptext` op)",
        "allocation failure paths and esl_getopts_CreateOptsLine are not modelled",
    ]
    rule = ("case = random well-formed option table (1-12 options) + 1-5 sources (cmdline/spoof/env/config file, occasionally Reuse in between) in random order, dumps of every query call in between, + VerifyConfig + full dump; "
            "non-trivial = at least one source returned ok and the final dump shows an option not at its default setter; distinct by output trace")
    quick_cases = 12000
    thorough_cases = 120000

    def __init__(self):
        self._stats = {}
        self._out_stats = {}
        self._samples = []

    # ------------------------------------------------------------------ corpus
    def corpus(self, ctx):
        T = utest_table()
        n = len(T) + 1
        cs = [
            {"name": "utest", "ops": T + ["create",
                                          "cfg s=" + hx('# Test config file #1\n#\n-b\n--d2\n-n 3\n-x 0.5\n--multi "one two three"\n'),
                                          "cfg s=" + hx("# Test config file #2\n#\n--no-b\n--hin -33\n--host www.nytimes.com\n"),
                                          "env v=%s:%s,%s:%s" % (hx("C14FOOTEST"), hx(""), hx("C14HOSTTEST"), hx("wasp.cryptogenomicon.org")),
                                          W("progname", "-bc", "y", "--d1", "-n9", "--hix=0.0", "--lown", "43", "--mul", "arg1", "2005"),
                                          "verify", "dump"], "sticky": n},
            {"name": "cluster-dash", "ops": T + ["create", W("prog", "-a-"), "dump", W("prog", "-b-", "x"), "dump"], "sticky": n},
            {"name": "plus-words", "ops": T + ["create", W("prog", "-a", "+b", "-b"), "verify", "dump"], "sticky": n},
            {"name": "dashdash", "ops": T + ["create", W("prog", "-a", "--", "-b", "--d2", "--"), "verify", "dump"], "sticky": n},
            {"name": "abbrev", "ops": T + ["create", W("prog", "--mu"), "dump", W("prog", "--mul"), "dump", W("prog", "--mult", "v"), "dump",
                                           W("prog", "--lo", "3"), "dump", W("prog", "--d"), W("prog", "--=1")], "sticky": n},
            {"name": "errors", "ops": T + ["create", W("prog", "--zzz"), W("prog", "-n"), W("prog", "--d1=3"), W("prog", "-n", "x"), W("prog", "-n", "10"),
                                           W("prog", "-c", "A"), W("prog", "--host", "-x"), W("prog", "-x", "1"), W("prog", "--lown", "5"), "verify",
                                           W("prog", "--hin=-2"), "verify", "dump"], "sticky": n},
            {"name": "twice", "ops": T + ["create", W("prog", "-a", "-a"), "dump", "env v=%s:%s" % (hx("C14FOOTEST"), hx("1")), "dump",
                                          W("prog", "-b", "--no-b"), "dump"], "sticky": n},
            {"name": "spoof", "ops": T + ["create", "spoof s=" + hx('getopts -a -b -c y --d1 -n 9 --host "wasp x" --multi "one two three" --mul a1 a2'),
                                          "verify", "dump"], "sticky": n},
            {"name": "reuse", "ops": T + ["create", "spoof s=" + hx("prog -a -n 5 x y"), "cfg s=" + hx("--host h.example.org\n"), "dump", "reuse", "dump",
                                          "spoof s=" + hx("prog -b z"), "cfg s=" + hx("-n 4\n"), "verify", "dump"], "sticky": n},
            {"name": "prefix-eq", "ops": [opt_line("--seed", 1, "0"), opt_line("--seedfile", 4, None), opt_line("-a", 0), "create",
                                          W("prog", "--seed=42", "x"), "dump", "reuse", W("prog", "--seedfile=f", "--seed", "7"), "dump", "reuse",
                                          W("prog", "--see=1"), "dump", W("prog", "--seedf=g", "--seed=3"), "verify", "dump"], "sticky": 4},
            {"name": "prefix-eq-rev", "ops": [opt_line("--seedfile", 4, None), opt_line("--seed", 1, "0"), "create",
                                              W("prog", "--seed=42", "x"), "dump", "reuse", W("prog", "--seed", "42", "--seedfile", "f"), "dump", "reuse",
                                              W("prog", "--seedfile=f=g", "--seed=-1"), "verify", "dump"], "sticky": 3},
            {"name": "prefix-flag", "ops": [opt_line("--mul", 0), opt_line("--multi", 4, None), "create", W("prog", "--mul", "--multi=one"), "dump", "reuse",
                                            W("prog", "--mul=1"), "dump", W("prog", "--mult=two", "--mu"), "dump"], "sticky": 3},
            {"name": "spoof-twice", "ops": T + ["create", "spoof s=" + hx("prog -a --host h1 arg1"), "dump", "spoof s=" + hx("prog -b"), "dump",
                                                "cfg s=" + hx("-n 3\n"), "dump", "reuse", "spoof s=" + hx("prog -b x"), "verify", "dump"], "sticky": n},
            {"name": "spoof-empty-twice", "ops": T + ["create", "spoof s=-", "dump", "spoof s=" + hx("prog -a x"), "dump", "reuse",
                                                      "spoof s=" + hx("   "), "dump", "spoof s=-", "dump", "reuse", "spoof s=" + hx("prog"), "spoof s=" + hx("prog -b"), "dump"], "sticky": n},
            {"name": "spoof-empty", "ops": T + ["create", "spoof s=-", "dump"], "sticky": n},
            {"name": "cfg-errors", "ops": T + ["create", "cfg s=" + hx("-b\n-b\n"), "dump", "cfg s=" + hx("--mu\n"), "cfg s=" + hx("junk\n"),
                                               "cfg s=" + hx("-n 3 4\n"), "cfg s=" + hx("-n 3 # ok\n-x 2\n"), "dump", "cfg s=" + hx("-a arg\n"), "dump"], "sticky": n},
            # regression (fix 8d4fde4): an option that takes an argument, none given, in a config file, is a usage error
            {"name": "cfg-missing-arg-char", "ops": T + ["create", "cfg s=" + hx("-c\n"), "dump"], "sticky": n},
            {"name": "cfg-missing-arg-string", "ops": T + ["create", "cfg s=" + hx("--multi\n"), "dump"], "sticky": n},
        ]
        # regression (fix 843fbc5): a malformed range starting with '=' made parse_rangestring read range[-1]; Create now fails
        for ty, v, de in ((1, "n", "3"), (2, "x", "0.5"), (3, "c", "d")):
            for rg in ("=%s<5" % v, "=%s<=5" % v, "=%s<" % v):
                cs.append({"name": "ill-range-underread-%s" % v, "ops": [opt_line("-%s" % v, ty, de, None, rg), "create raw=1", "dump"], "sticky": 2})
                cs.append({"name": "ill-range-underread-nodef-%s" % v, "ops": [opt_line("-%s" % v, ty, None, None, rg), "create raw=1",
                                                                              W("prog", "-%s" % v, de), "dump", "cfg s=" + hx("-%s %s\n" % (v, de)), "dump"], "sticky": 2})
        # exhaustive sweep of one extra character before / after a valid number, and of every printable character as a
        # char argument (type checks must reject exactly what the documented syntax excludes)
        chars = [chr(c) for c in range(0x21, 0x7f) if chr(c) not in ","] + [" ", "\t"]
        tbl = [opt_line("--int", 1, "5", None, "0<=n<=1000"), opt_line("--real", 2, "0.5", None, "-10<x<=1000"),
               opt_line("--chr", 3, "m", None, "a<=c<=z"), opt_line("--str", 4, None)]
        for nm, base in (("--int", "42"), ("--real", "4.25"), ("--real", "1e2"), ("--int", "-0")):
            ops = tbl + ["create"]
            for ch in chars:
                # (re-use after each: once set, a second setting is rejected before its type is looked at)
                ops += [W("prog", nm + "=" + base + ch), "reuse", W("prog", nm + "=" + ch + base), "reuse",
                        W("prog", nm + "=" + base[:1] + ch + base[1:]), "reuse"]
            cs.append({"name": "sweep" + nm + base, "ops": ops + ["dump"], "sticky": len(tbl) + 1})
        # every prefix of every name of a table with shared prefixes, as flag / `=value` / separate value
        nm_ty = [("--foo", 0), ("--foobar", 1), ("--fo", 4), ("--bar", 0), ("--baz-x", 2), ("--no-foo", 0), ("-f", 0), ("--f", 3)]
        for order in (nm_ty, nm_ty[::-1]):
            rows = [opt_line(nm, ty) for nm, ty in order]
            ops = rows + ["create"]
            for nm, ty in nm_ty:
                if not nm.startswith("--"):
                    continue
                for k in range(2, len(nm) + 1):
                    pre = nm[:k]
                    ops += [W("prog", pre), "dump", "reuse", W("prog", pre + "=7"), "dump", "reuse", W("prog", pre, "7", "x"), "dump", "reuse"]
            cs.append({"name": "abbrev-sweep", "ops": ops, "sticky": len(rows) + 1})
        # clusters of short options
        rows = [opt_line("-a", 0), opt_line("-b", 0), opt_line("-c", 0, "on"), opt_line("-n", 1, "0"), opt_line("-s", 4, None), opt_line("-x", 2, None),
                opt_line("--a", 0), opt_line("--long", 0)]
        ops = rows + ["create"]
        for w in ["-ab", "-ba", "-abc", "-cab", "-aa", "-abn5", "-abn", "-anb", "-an5b", "-as", "-asfoo", "-sfoo", "-sa", "-s-a", "-a-", "-a-b", "-ab-", "-a--long",
                  "-n-5", "-n", "-x.5", "-ax1e2", "-xa", "-abz", "-z", "-ab=", "-s=v", "-n=5", "-", "--", "-a=", "-abs"]:
            ops += [W("prog", w, "7", "-b", "y"), "dump", "reuse"]
        cs.append({"name": "cluster-sweep", "ops": ops, "sticky": len(rows) + 1})
        # a toggle pair set by every ordered pair of sources
        rows = [opt_line("-b", 0, None, "C14SWB", None, "-b,--no-b"), opt_line("--no-b", 0, "TRUE", "C14SWN", None, "-b,--no-b"),
                opt_line("--s1", 4, None, "C14SW1", None, "--s2"), opt_line("--s2", 4, "dflt", "C14SW2", None, "--s1")]
        def setter(kind, nm, arg):
            if kind == "cmd":
                return W("prog", nm) if arg is None else W("prog", nm, arg)
            if kind == "cfg":
                return "cfg s=" + hx(nm + ("" if arg is None else " " + arg) + "\n")
            env = {"-b": "C14SWB", "--no-b": "C14SWN", "--s1": "C14SW1", "--s2": "C14SW2"}[nm]
            return "env v=%s:%s" % (hx(env), hx("1" if arg is None else arg))
        for grp, arg in ((("-b", "--no-b"), None), (("--s1", "--s2"), "val")):
            ops = rows + ["create"]
            for k1 in ("cmd", "env", "cfg"):
                for k2 in ("cmd", "env", "cfg"):
                    for n1 in grp:
                        for n2 in grp:
                            ops += [setter(k1, n1, arg), setter(k2, n2, arg), "verify", "dump"] + (["spoofcmd"] if "cmd" in (k1, k2) else []) + ["reuse"]
            cs.append({"name": "toggle-order-sweep" + grp[0], "ops": ops, "sticky": len(rows) + 1})
        # requirements and incompatibilities over every subset of options
        rows = [opt_line("-a", 0, None, None, None, None, "-b", None), opt_line("-b", 0), opt_line("-c", 0, None, None, None, None, None, "-a,-c"),
                opt_line("-d", 1, "3", None, None, None, "-a,-c", "-b")]
        ops = rows + ["create"]
        for mask in range(16):
            ws = ["prog"] + [w for k, w in enumerate(["-a", "-b", "-c", "-d5"]) if mask >> k & 1]
            ops += [W(*ws), "verify", "dump", "reuse"]
        cs.append({"name": "verify-sweep", "ops": ops, "sticky": len(rows) + 1})
        # config-file line forms (documented format: option, argument if it takes one, `#` comments, quoted multi-word arguments)
        ops = T + ["create"]
        for txt in ["-a\n", " -a\n", "\t-a\n", "-a # c\n", "-a\t#c\n", "-n 3\n", "-n\t3\n", "-n  3\n", "-n 3 # c\n", "-n 3 4\n", "-n\n", "-n 3",
                    '--multi "one two"\n', '--multi "one two" # c\n', '--multi "one two" x\n', "--multi one\n", "--multi one two\n", "#\n", "\n", "   \n",
                    "x\n", "-a b\n", "--mu\n", "--mul\n", "-bc y\n", "--hix=0.1\n", "-c y\n-c z\n", "-b\n--no-b\n", "# c\n\n-a\n", "-x 0.5\n-n 9\n--hin -2\n",
                    "--lown 5\n", "--lown 5\n-a\n-b\n", "--host h\n--host g\n", "-n 10\n", "-c A\n", "-x 1\n", "--hix 1e-3\n", "-a\n" * 2, "-a" + " " * 200 + "# long\n",
                    "--multi " + "w" * 300 + "\n"]:
            ops += ["cfg s=" + hx(txt), "verify", "dump", "cfg s=" + hx(txt), "dump", "reuse"]
        cs.append({"name": "cfg-forms", "ops": ops, "sticky": n})
        # line lengths around the 128-byte chunks of esl_fgets(), with and without the final newline; a fresh object verifies
        ops = T + ["create", "verify", "dump"]
        for L in (126, 127, 128, 129, 130, 254, 255, 256, 257, 258, 383, 384, 385):
            for nl in ("\n", ""):
                body = "--multi " + "w" * (L - len("--multi ") - len(nl)) + nl
                ops += ["cfg s=" + hx(body + "-n 4" + nl), "dump", "reuse", "cfg s=" + hx("#" + "c" * (L - 1 - len(nl)) + nl + "-n 5\n"), "dump", "reuse"]
        cs.append({"name": "cfg-line-lengths", "ops": ops, "sticky": n})
        # every documented range form at and around its bounds
        forms = [("%s<=%s<=%s", 1, 1), ("%s<%s<=%s", 0, 1), ("%s<=%s<%s", 1, 0), ("%s<%s<%s", 0, 0)]
        for ty, v, lo, hi, vals in ((1, "n", "-3", "7", ["-5", "-4", "-3", "-2", "0", "6", "7", "8", "9", "+7", "07", " 7", "7 "]),
                                    (2, "x", "-0.5", "2.5", ["-0.51", "-0.5", "-.5", "-5e-1", "-0.49", "0", "2.49", "2.5", "25e-1", "2.50", "2.51", "1e1", "-1"]),
                                    (3, "c", "b", "y", ["a", "b", "c", "m", "x", "y", "z", "B", "`", "{"])):
            rows, names = [], []
            for k, (f, ge, le) in enumerate(forms):
                rows.append(opt_line("--two%d" % k, ty, None, None, f % (lo, v, hi))); names.append("--two%d" % k)
            for k, r in enumerate(["%s>=%s" % (v, lo), "%s>%s" % (v, lo), "%s<=%s" % (v, hi), "%s<%s" % (v, hi)]):
                rows.append(opt_line("--one%d" % k, ty, None, None, r)); names.append("--one%d" % k)
            ops = rows + ["create"]
            for x in vals:
                ops += [W("prog", *[nm2 + "=" + x for nm2 in names[:4]]), "dump", "reuse", W("prog", *[nm2 + "=" + x for nm2 in names[4:]]), "dump", "reuse"]
                for nm2 in names:
                    ops += [W("prog", nm2, x), "reuse"]
            cs.append({"name": "range-bounds-%s" % v, "ops": ops + ["dump"], "sticky": len(rows) + 1})
        # `--name=` with an empty attached value, for every type, in every position, as command line and spoofed command line
        rows = [opt_line("--flag", 0), opt_line("--int", 1, "5", None, "0<=n<=9"), opt_line("--real", 2, "0.5"), opt_line("--chr", 3, "m"),
                opt_line("--chrr", 3, "m", None, "a<=c<=z"), opt_line("--str", 4), opt_line("--strd", 4, "dflt"), opt_line("--inf", 5), opt_line("--out", 6, "o.txt"),
                opt_line("-s", 4), opt_line("--tog1", 4, None, None, None, "--tog2"), opt_line("--tog2", 4, "on", None, None, "--tog1")]
        ops = rows + ["create"]
        for nm in ("--flag", "--int", "--real", "--chr", "--chrr", "--str", "--strd", "--inf", "--out", "--tog1", "--tog2", "--st", "--fl", "--in", "--zz"):
            for ws in ([nm + "="], [nm + "=", "next", "x"], [nm + "=", "--flag"], ["--flag", nm + "="], [nm + "=", "--", "-x"], [nm + "==v"], [nm, ""], [nm + "=", nm + "="]):
                ops += [W("prog", *ws), "verify", "dump", "spoofcmd", "reuse"]
                if "" not in ws:
                    ops += ["spoof s=" + hx(" ".join(["prog"] + ws)), "dump", "reuse"]
        ops += [W("prog", "-s", "", "x"), "dump", "reuse", W("prog", "-s=", "x"), "dump", "reuse", W("prog", "-s", "=", "x"), "dump", "reuse"]
        cs.append({"name": "empty-attached-value", "ops": ops, "sticky": len(rows) + 1})
        # integers beyond the int range: the range check and GetInteger read the same atoi() value
        bigs = [str(x) for x in (2 ** 31 - 1, 2 ** 31, -2 ** 31, -2 ** 31 - 1, 2 ** 32 - 1, 2 ** 32, 2 ** 32 + 1, 2 ** 32 + 5, 2 ** 32 + 10, -2 ** 32 + 5, 2 ** 33,
                                2 ** 63 - 1, 2 ** 63, 2 ** 63 + 5, -2 ** 63, -2 ** 63 - 1, 2 ** 64, 2 ** 64 + 5, 10 ** 20, 10 ** 20 + 5, -10 ** 25,
                                4294967296 * 7 + 3, 99999999999999999999999999)] + ["+4294967301", "004294967301", "-4294967291"]
        rows = [opt_line("--pos", 1, "1", None, "n>0"), opt_line("--dig", 1, "0", None, "0<=n<10"), opt_line("--neg", 1, "-1", None, "n<0"),
                opt_line("--any", 1, "0"), opt_line("--le", 1, "0", None, "n<=2147483647"), opt_line("--ge", 1, "0", None, "n>=-2147483648"),
                opt_line("--bigb", 1, "5", None, "0<n<4294967306"), opt_line("--bigb2", 1, "7", None, "-4294967291<=n<=4294967306"),
                opt_line("--k", 1, "1", "C14BIGK", "n>0")]
        ops = rows + ["create"]
        for b in bigs:
            ops += [W("prog", "--pos", b, "--dig=" + b, "--any", b), "dump", "reuse"]
            for nm in ("--pos", "--dig", "--neg", "--any", "--le", "--ge", "--bigb", "--bigb2"):
                ops += [W("prog", nm, b), "dump", "reuse"]
            ops += ["cfg s=" + hx("--k %s\n--any %s\n" % (b, b)), "dump", "reuse", "env v=%s:%s" % (hx("C14BIGK"), hx(b)), "dump", "reuse"]
        cs.append({"name": "bigint-sweep", "ops": ops, "sticky": len(rows) + 1})
        ops = tbl + ["create"]
        for ch in chars:
            ops += [W("prog", "--chr=" + ch), "reuse"]
        cs.append({"name": "sweep-chr", "ops": ops + ["dump"], "sticky": len(tbl) + 1})
        return cs

    # ------------------------------------------------------------------ generated cases
    def cases(self, ctx):
        g = Gen(ctx.rng, ctx.tier)
        n = self.quick_cases if ctx.tier == "quick" else self.thorough_cases
        out = [g.case(i) for i in range(n)]
        self._stats = g.stats
        return out

    _realtok = re.compile(r"/x(-?\d+)e(-?\d+)(?=;|$| )")

    def canonical(self, line):
        if line.startswith("fault") or line.startswith("atexit"):
            return "fault"
        if line.startswith("ok argn="):
            # GetReal: the harness prints 15 significant digits of the double, the model the exact decimal; compare as doubles
            def norm(m):
                try:
                    return "/x%.12e" % float(m.group(1) + "e" + m.group(2))
                except (ValueError, OverflowError):
                    return m.group(0)
            return self._realtok.sub(norm, line)
        return line

    def compare(self, ctx, case, impl_out, model_out):
        """exact comparison, except: (1) a success line is compared by status only; (2) after a command line that
        ended in a usage error the position of `optind` is not documented, so ArgNumber/GetArg are not compared"""
        n = max(len(impl_out), len(model_out))
        cmd_failed = False
        for i in range(n):
            a = self.canonical(impl_out[i]) if i < len(impl_out) else "<missing>"
            b = self.canonical(model_out[i]) if i < len(model_out) else "<missing>"
            op = case["ops"][i].split()[0] if i < len(case["ops"]) else ""
            if op in ("cmdline", "spoof"):
                cmd_failed = not a.startswith("ok")
            if op == "dump":
                # g->valloc[] is internal bookkeeping: compared only through its consequences (stored strings, ASan)
                a, b = re.sub(r" valloc=\S*$", " valloc=*", a), re.sub(r" valloc=\S*$", " valloc=*", b)
            if op == "dump" and cmd_failed:
                a, b = re.sub(r"argn=\S+ args=\S*", "argn=* args=*", a), re.sub(r"argn=\S+ args=\S*", "argn=* args=*", b)
            if a.startswith("ok ") and b.startswith("ok ") and op in ("cmdline", "spoof", "env", "cfg", "verify"):
                continue
            if a != b:
                if op == "dump":
                    d = self.describe_dump_difference(case, a, b)
                    if d:
                        return (i, d[0], d[1])
                return (i, a, b)
        return None

    @staticmethod
    def describe_dump_difference(case, a, b):
        """name the first option whose dump field differs: what the implementation holds vs. what the documented rules (the model) give"""
        ma, mb = re.search(r"opts=(\S*) valloc=(\S*)$", a), re.search(r"opts=(\S*) valloc=(\S*)$", b)
        if not ma or not mb:
            return None
        names = [unhx(dict(x.split("=", 1) for x in o.split()[1:])["name"]) for o in case["ops"] if o.startswith("opt ")]
        fa, fb = ma.group(1).split(";"), mb.group(1).split(";")
        va, vb = ma.group(2).split(","), mb.group(2).split(",")
        for k in range(min(len(fa), len(fb), len(names))):
            if fa[k] != fb[k] or (k < len(va) and k < len(vb) and va[k] != vb[k]):
                def show(f, v):
                    p = f.split("/")
                    val = p[0] if p[0] in ("~", "1") else repr(unhx(p[0]))
                    return "value %s, setter %s, IsDefault/IsOn/IsUsed %s, getter %s, valloc %s" % (val, p[1], p[2], p[3], v)
                return ("option %d (%s): the implementation has %s — not the last setter's value | full line: %s" % (k, names[k], show(fa[k], va[k] if k < len(va) else "?"), a),
                        "option %d (%s): the documented rules (model) give %s | full line: %s" % (k, names[k], show(fb[k], vb[k] if k < len(vb) else "?"), b))
        return None

    # ------------------------------------------------------------------ monitors (on implementation output only)
    def monitor(self, ctx, case, out):
        spoofed = False
        if len(self._samples) < 3 and case.get("name", "").startswith("gen") and self.nontrivial(case, out) and len(case["ops"]) < 16:
            try:
                self._samples.append(self.readable(case, out))
            except Exception:
                pass
        cmd_failed = False
        texts = []        # everything the sources processed since Create/Reuse said, decoded (for the provenance check of stored values)
        if case.get("name", "").startswith("dapp"):
            for op, l in zip(case["ops"], out):
                if op.startswith("defapp"):
                    self._out_stats["defapp:" + l.split("=")[0]] = self._out_stats.get("defapp:" + l.split("=")[0], 0) + 1
                    if not re.match(r"(returned argn=\d+|exit0 help|exit1 parse|exit1 nargs)$", l) and not l.startswith("fault"):
                        return Failure("monitor", "CreateDefaultApp ended in an undocumented way: %r for %s" % (l, op[:200]))
                    m = re.match(r"returned argn=(\d+)$", l)
                    na = int(dict(x.split("=", 1) for x in op.split()[1:])["nargs"])
                    if m and na != -1 and int(m.group(1)) != na:
                        return Failure("monitor", "CreateDefaultApp returned with %s arguments although exactly %d were required" % (m.group(1), na))
            return None
        if case.get("name", "").startswith("rrng"):
            for op, l in zip(case["ops"], out):
                k = "realrange:" + l.split()[0]
                self._out_stats[k] = self._out_stats.get(k, 0) + 1
                if not re.match(r"(ok bits=[0-9a-f]{16}|esyntax msg)$", l) and not l.startswith("fault"):
                    return Failure("monitor", "a real argument was neither accepted nor refused with a message: %r for %s" % (l, op[:200]))
            return None
        if case.get("name", "").startswith("atof"):
            for op, l in zip(case["ops"], out):
                if not re.match(r"isreal=[01] bits=[0-9a-f]{16}$", l):
                    return Failure("monitor", "atof op answered %r" % l[:80])
            return None
        ill = case.get("name", "").startswith("ill")      # deliberately ill-formed table: eslEINVAL answers are the documented ones
        for op, l in zip(case["ops"], out):
            w = op.split()[0]
            if ill:
                if w not in ("opt", "dump"):
                    k = "ill-table %s:%s" % (w, l.split()[0] if l else "?")
                    self._out_stats[k] = self._out_stats.get(k, 0) + 1
                # never a crash (the engine reports faults); every call answers with a status; the exact answers are compared with the model
                if w in ("cmdline", "spoof", "env", "cfg", "verify") and l.split()[0] not in ("ok", "esyntax", "einval", "nog"):
                    return Failure("monitor", "%s on an ill-formed table returned %r" % (w, l))
                if w == "create" and l not in ("ok", "einval"):
                    return Failure("monitor", "Create on an ill-formed table returned %r" % l)
                continue
            if w not in ("opt", "dump"):
                k = "%s:%s" % (w, l.split()[0] if l else "?")
                self._out_stats[k] = self._out_stats.get(k, 0) + 1
            if w in ("cmdline", "spoof"):
                cmd_failed = not l.startswith("ok")
            if l.startswith(("fault", "atexit")):
                continue                      # reported by the engine as a fault
            if w == "reuse" and l != "ok":
                return Failure("monitor", "Reuse returned %r" % l)
            if w == "reuse":
                spoofed = False
                texts = []
            if w in ("cmdline", "spoof", "env", "cfg"):
                try:
                    kv = dict(x.split("=", 1) for x in op.split()[1:] if "=" in x)
                    if w == "cmdline":
                        texts += [unhx(x) for x in kv.get("w", "").split(",") if x]
                    elif w == "env":
                        texts += [unhx(p_.split(":")[1]) for p_ in kv.get("v", "").split(",") if ":" in p_]
                    else:
                        texts.append(unhx(kv.get("s", "-")) or "")
                except Exception:
                    pass
            if w == "spoof" and spoofed:
                if l != "einval msg":
                    return Failure("monitor", "a second spoofed command line returned %r (expected eslEINVAL with a message): %s" % (l, op[:200]))
                continue
            if w == "spoof":
                spoofed = True
            if w in ("cmdline", "spoof", "env", "cfg", "verify"):
                p = l.split()
                if p[0] not in ("ok", "esyntax"):
                    return Failure("monitor", "%s returned status %r (neither success nor a usage error): %s" % (w, l, op[:200]))
                if p[0] == "esyntax" and (len(p) < 2 or p[1] != "msg"):
                    return Failure("monitor", "%s reported a usage error without a message: %s" % (w, op[:200]))
            elif w == "help":
                p = l.split()
                if p[0] not in ("ok", "einval") or (p[0] == "einval" and p[1:] != ["-"]):
                    return Failure("monitor", "DisplayHelp returned %r: %s" % (l[:80], op))
                if p[0] == "ok":
                    f = self.check_help(case, op, unhx(p[1]))
                    if f:
                        return Failure("monitor", f)
            elif w == "dumptext":
                if not l.startswith("ok "):
                    return Failure("monitor", "esl_getopts_Dump answered %r" % l[:80])
                nopt = sum(1 for o in case["ops"] if o.startswith("opt "))
                tl = (unhx(l.split()[1]) or "").split("\n")
                if "------------ ------------ ---------" not in tl or len(tl) - 1 - tl.index("------------ ------------ ---------") - 1 != nopt:
                    return Failure("monitor", "esl_getopts_Dump does not print one line per option after its header")
            elif w == "spoofcmd":
                if not l.startswith("ok "):
                    return Failure("monitor", "SpoofCmdline returned %r" % l[:80])
            elif w == "create" and l != "ok":
                return Failure("monitor", "Create failed on a well-formed table: %r" % l)
            elif w == "dump":
                f = self.check_dump(case, l, cmd_failed, texts)
                if f:
                    return Failure("monitor", f)
        return None

    _r2 = re.compile(r"^(-?\d+)(<=?)n(<=?)(-?\d+)$")
    _r1 = re.compile(r"^n(>=|>|<=|<)(-?\d+)$")

    def int_range_violation(self, rg, n):
        """a value that passed a range check satisfies the range as GetInteger returns it (documented range forms with
        bounds inside the int range; other range strings are compared with the model only)"""
        if not rg:
            return None
        m = self._r2.match(rg)
        if m:
            lo, hi = int(m.group(1)), int(m.group(4))
            if abs(lo) >= 2 ** 31 or abs(hi) >= 2 ** 31:
                return None
            if not ((lo <= n if m.group(2) == "<=" else lo < n) and (n <= hi if m.group(3) == "<=" else n < hi)):
                return "outside %s" % rg
            return None
        m = self._r1.match(rg)
        if m:
            b = int(m.group(2))
            if abs(b) >= 2 ** 31:
                return None
            ok = {">=": n >= b, ">": n > b, "<=": n <= b, "<": n < b}[m.group(1)]
            return None if ok else "outside %s" % rg
        return None

    def check_help(self, case, op, text):
        """documented layout of esl_opt_DisplayHelp: one line per option of the docgroup, in table order, starting with the
        indent and the option name; the ' :' separators are aligned; no line is wider than textwidth (+2: the separator
        is not counted by the code's width computation)"""
        kv = dict(x.split("=", 1) for x in op.split()[1:])
        grp, indent, width = int(kv["grp"]), int(kv["indent"]), int(kv["width"])
        rows = [dict(x.split("=", 1) for x in o.split()[1:]) for o in case["ops"] if o.startswith("opt ")]
        sel = [r for r in rows if grp == 0 or int(r.get("grp", "0")) == grp]
        lines = text.split("\n")
        if lines[-1] != "":
            return "help output does not end with a newline"
        lines = lines[:-1]
        if len(lines) != len(sel):
            return "help prints %d lines for %d options of docgroup %d" % (len(lines), len(sel), grp)
        ow = max([len(unhx(r["name"])) + (4 if int(r["type"]) != 0 else 0) for r in sel] + [0])
        for ln, r in zip(lines, sel):
            nm = unhx(r["name"])
            if not ln.startswith(" " * indent + nm):
                return "help line %r does not start with indent + option name %r" % (ln, nm)
            if ln[indent + ow: indent + ow + 2] != " :":
                return "help line %r: separator not at column %d" % (ln, indent + ow)
            if len(ln) > width + 2:
                return "help line of %d characters for textwidth %d" % (len(ln), width)
            h = unhx(r["help"]) if "help" in r else "help"
            if h and (" : " + h) not in ln:
                return "help line %r lacks its help string" % ln
        return None

    def check_dump(self, case, l, cmd_failed=False, texts=None):
        m = re.match(r"ok argn=(-?\d+) args=(\S*) a0=(\S*) opts=(\S*) valloc=(\S*)$", l)
        if not m:
            return "malformed dump line %r" % l[:200]
        vallocs = m.group(5).split(",")
        if m.group(3) != "~~":
            return "GetArg(0) / GetArg(-1) returned an argument"
        argn = int(m.group(1))
        args = m.group(2).split(",") if m.group(2) else []
        if not cmd_failed and argn >= 0 and (len(args) != argn + 1 or args[-1] != "~" or any(a == "~" for a in args[:-1])):
            return "GetArg inconsistent with ArgNumber=%d: %r" % (argn, args)
        types = [int(dict(x.split("=", 1) for x in o.split()[1:])["type"]) for o in case["ops"] if o.startswith("opt ")]
        defs = [dict(x.split("=", 1) for x in o.split()[1:])["def"] for o in case["ops"] if o.startswith("opt ")]
        fields = m.group(4).split(";")
        if len(fields) != len(types):
            return "dump has %d options, table has %d" % (len(fields), len(types))
        if len(vallocs) != len(types):
            return "dump has %d valloc entries, table has %d options" % (len(vallocs), len(types))
        for i, (f, ty, de) in enumerate(zip(fields, types, defs)):
            val, setby, flags, typed = f.split("/")
            # allocation layer: a block is owned only by an argument-taking option that a config file set, and it holds
            # the stored string with its terminator
            # (only what every allocation policy must satisfy is monitored; the model's exact valloc[] is shown in divergence
            # messages but not compared: block sizes are internal, a different growth policy is a harmless refactoring)
            va = int(vallocs[i])
            if va < 0 or (va > 0 and (val in ("~", "1") or len(unhx(val)) + 1 > va)):
                return "option %d: valloc=%d cannot hold the stored value %s (set by %s, type %d)" % (i, va, val, setby, ty)
            isdef, ison, isused = flags[0] == "1", flags[1] == "1", flags[2] == "1"
            # provenance: the stored string of an argument-taking option is its default or, literally, something a source
            # processed since Create/Reuse said ("each option takes the value from the last source that set it")
            if texts is not None and ty != 0 and val not in ("~", "1") and val != de:
                sv = unhx(val)
                if not any(sv in t_ for t_ in texts if t_ is not None):
                    name = unhx(dict(x.split("=", 1) for x in [o for o in case["ops"] if o.startswith("opt ")][i].split()[1:])["name"])
                    return ("value of option %d (%s) is not the last setter's value: it holds %r (setter code %s), which neither is its default %r "
                            "nor was given by any source processed so far" % (i, name, sv, setby, unhx(de)))
            if ison != (val != "~"):
                return "option %d: IsOn=%s but value %s" % (i, ison, val)
            if isused != ((not isdef) and ison):
                return "option %d: IsUsed=%s with IsDefault=%s IsOn=%s" % (i, isused, isdef, ison)
            same = (val == de) if ty != 0 else ((val == "~") == (de == "~"))    # booleans: only on/off is observable
            if setby == "0" and not (isdef and same):
                return "option %d: setter is default but value %s / IsDefault %s (default %s)" % (i, val, isdef, de)
            if isdef != (setby == "0" or same):
                return "option %d: IsDefault=%s with setter %s value %s default %s" % (i, isdef, setby, val, de)
            if ty == 0:
                if typed != ("b1" if ison else "b0"):
                    return "option %d: GetBoolean %s but IsOn %s" % (i, typed, ison)
            elif val == "~":
                pass
            elif ty == 1:
                s = unhx(val)
                try:
                    n = int(s.strip())
                except ValueError:
                    return "option %d: integer option holds %r" % (i, s)
                got = int(typed[1:])
                # what (int) strtol() makes of the digits: clamp to long, keep the low 32 bits
                w = max(-2 ** 63, min(2 ** 63 - 1, n)) % 2 ** 32
                w = w - 2 ** 32 if w >= 2 ** 31 else w
                if got != w:
                    return "option %d: GetInteger %s for value %r" % (i, typed, s)
                rgs = [dict(x.split("=", 1) for x in o.split()[1:])["range"] for o in case["ops"] if o.startswith("opt ")]
                f = self.int_range_violation(unhx(rgs[i]), got)
                if f:
                    return ("option %d holds %r, which passed the range check of %r, but esl_opt_GetInteger returns %d: %s"
                            % (i, s, unhx(rgs[i]), got, f))
            elif ty == 3:
                s = unhx(val)
                if len(s) > 1 or int(typed[1:]) != (ord(s[0]) if s else 0):
                    return "option %d: GetChar %s for value %r" % (i, typed, s)
            elif ty == 2:
                s = unhx(val)
                try:
                    x = float(s)
                except ValueError:
                    return "option %d: real option holds %r" % (i, s)
                t = typed[1:]
                try:
                    y = 0.0 if t == "0" else float(t)
                except ValueError:
                    return "option %d: GetReal returned %s (not a finite number) for stored value %r" % (i, t, s)
                if not (x == y or abs(x - y) <= 1e-12 * max(abs(x), abs(y))):
                    return "option %d: GetReal %s for value %r" % (i, typed, s)
        return None

    def nontrivial(self, case, out):
        oksrc = any(l.startswith("ok ") for op, l in zip(case["ops"], out) if op.split()[0] in ("cmdline", "spoof", "env", "cfg"))
        last = out[-1] if out else ""
        m = re.search(r"opts=(\S*) valloc=\S*$", last)
        return bool(oksrc and m and any(f.split("/")[1] != "0" for f in m.group(1).split(";") if f.count("/") == 3))

    @staticmethod
    def readable(case, out):
        """a case written out for a reader: decoded table, decoded sources, implementation answers"""
        table, steps = [], []
        for op, l in zip(case["ops"], out):
            w = op.split()
            kv = dict(x.split("=", 1) for x in w[1:] if "=" in x)
            if w[0] == "opt":
                table.append({"name": unhx(kv["name"]), "type": ["NONE", "INT", "REAL", "CHAR", "STRING", "INFILE", "OUTFILE"][int(kv["type"])],
                              "default": unhx(kv["def"]), "env": unhx(kv["env"]), "range": unhx(kv["range"]),
                              "toggle": unhx(kv["tog"]), "required": unhx(kv["req"]), "incompat": unhx(kv["inc"])})
            elif w[0] == "cmdline":
                steps.append({"cmdline": [unhx(x) for x in kv.get("w", "").split(",") if x], "->": l})
            elif w[0] == "spoof":
                steps.append({"spoof": unhx(kv.get("s", "~")), "->": l})
            elif w[0] == "env":
                steps.append({"env": {unhx(a): unhx(b) for a, b in (p.split(":") for p in kv.get("v", "").split(",") if p)}, "->": l})
            elif w[0] == "cfg":
                steps.append({"cfgfile": unhx(kv.get("s", "~")), "->": l})
            elif w[0] == "dump":
                m = re.match(r"ok argn=(-?\d+) args=(\S*) a0=\S* opts=(\S*) valloc=\S*$", l)
                if m:
                    steps.append({"dump": {"args": [unhx(a) for a in m.group(2).split(",") if a][:-1],
                                           "options(value/setter/IsDefault,IsOn,IsUsed/getter)": m.group(3).split(";")}})
            else:
                steps.append({w[0]: l})
        return {"name": case.get("name"), "table": table, "steps": steps}

    def extra_evidence(self, ctx):
        ev = {"input_distribution": self._stats, "implementation_outcomes": dict(sorted(self._out_stats.items()))}
        if self._samples:
            ev["samples"] = self._samples
        return ev


SPEC = C14()
