"""C01 - allocation-boundary shapes of the alignment readers, enumerated (not sampled): every file here is VALID by construction,
so besides the exact comparison with the model the monitor demands `rd=ok` with the alignment's own nseq x alen (`expect`).

Stockholm (`stockholm_get_seqidx` -> `esl_msa_Expand` + `stockholm_parsedata_ExpandSeq`, sqalloc 16 -> 32 -> 64 -> 128):
  nseq in {16,17,32,33,64,65}  x  2-3 blocks  x  sparse per-sequence markup (unparsed #=GR tags, parsed SS/SA/PP) and unparsed #=GC
  tags placed on sequences BEFORE / AT / AFTER each doubling point  x  names first met in the block itself, in a complete #=GS header
  (every expansion happens before any #=GR line is read), or in a partial / permuted #=GS header (expansion in the middle of the header
  or in the middle of the block).  The property of the growth step the shapes look at is `StoGrowth.lean: expandAll_keeps_*`:
  the slots [0..salloc-1] of sqlen / sslen / salen / pplen / ogr_len[tag] keep their value, the new ones are 0.

Other growing readers (Clustal, Clustal-like, PSI-BLAST, SELEX, PHYLIP interleaved + sequential, A2M, aligned FASTA): the same row counts
x 1-3 blocks, and sequence lines whose length in bytes is 127 / 128 / 129 / 255 / 256 / 257 (+CRLF variants).
"""
from props import msagen as G

NSEQ = [16, 17, 32, 33, 64, 65]
LINELEN = [127, 128, 129, 255, 256, 257]


def _names(rng, n, w=None):
    out = []
    for i in range(n):
        k = rng.choice([0, 1, 3])
        s = "s%02d" % i + "".join(rng.choice("abcxyz_09") for _ in range(k))
        out.append(s if w is None else s[:w].ljust(w, "x"))
    return out


def _rows(rng, n, L, chars="ACGT-"):
    rows = []
    for i in range(n):
        r = [rng.choice(chars) for _ in range(L)]
        r[rng.randrange(L)] = "A"            # never an all-gap row (irrelevant to the readers, keeps A2M/text/digital identical)
        rows.append("".join(r))
    return rows


def _where(n):
    """index sets relative to the doubling points 16, 32, 64"""
    pts = [p for p in (16, 32, 64) if p < n] or [16]
    sets = {"first": [0], "all": list(range(n)), "even": list(range(0, n, 2))}
    for p in pts:
        sets["before%d" % p] = [i for i in range(n) if i < p][-3:]              # the last slots of the old allocation
        sets["early%d" % p] = [i for i in (0, 1, p // 2) if i < n]
        sets["straddle%d" % p] = [i for i in (p - 1, p) if i < n]
        sets["after%d" % p] = [i for i in range(p, min(n, p + 2))]
    return {k: v for k, v in sets.items() if v}


def stockholm_cases(rng, quick=True):
    """(name, data, expect) for the enumerated Stockholm growth shapes"""
    out = []
    for n in NSEQ:
        where = _where(n)
        keys = sorted(where)
        for nblk in (2, 3):
            for decl in ("block", "gs-all", "gs-some", "gs-perm"):
                # two placements per combination in the quick tier, every placement in the thorough tier
                picks = keys if not quick else rng.sample(keys, min(2, len(keys)))
                for wk in picks:
                    w = rng.choice([1, 2, 5])
                    names = _names(rng, n)
                    rows = _rows(rng, n, w * nblk)
                    col = lambda chars: "".join(rng.choice(chars) for _ in range(w * nblk))
                    on = set(where[wk])
                    # 1-3 per-sequence tags on the chosen sequences: always one unparsed tag, maybe a second one on another placement,
                    # maybe a parsed one (SS/SA/PP have their own length arrays sslen/salen/pplen)
                    tags = [(rng.choice(["AS", "LI", "IN", "csa", "T1"]), on)]
                    if rng.random() < 0.5: tags.append((rng.choice(["Q2", "pAS", "zz"]), set(where[rng.choice(keys)])))
                    if rng.random() < 0.5: tags.append((rng.choice(["SS", "SA", "PP"]), set(where[rng.choice(keys)])))
                    gr = [(t, s, {i: col("abc.*") for i in s}) for t, s in tags]
                    gc = [(t, col("xyz.<>")) for t in rng.sample(["XX", "YYtag", "SS_cons", "RF", "c"], rng.choice([0, 1, 2]))]
                    hdr = ["# STOCKHOLM 1.0"]
                    if decl == "gs-all":
                        kind = rng.choice(["WT", "AC", "DE", "OS"])
                        for i in range(n): hdr.append("#=GS %s %s %s" % (names[i], kind, "%.2f" % (0.5 + i / 8) if kind == "WT" else "v%d" % i))
                    elif decl == "gs-some":
                        for i in sorted(rng.sample(range(n), rng.choice([1, 2, n // 2]))): hdr.append("#=GS %s DE text %d" % (names[i], i))
                    elif decl == "gs-perm":
                        # names declared in an order that is NOT the block's: the block then meets known names, the header does the growing
                        for i in rng.sample(range(n), n): hdr.append("#=GS %s OS org%d" % (names[i], i))
                    # the reader numbers sequences in order of first mention: a permuted / partial header changes the order of the MSA, not n x alen
                    body = []
                    margin = max(len("#=GR %s %s" % (nm, t)) for nm in names for t, _, _ in gr) + 2
                    for b in range(nblk):
                        body.append("")
                        for i in range(n):
                            body.append(names[i].ljust(margin) + rows[i][b * w:(b + 1) * w])
                            for t, s, v in gr:
                                if i in s: body.append(("#=GR %s %s" % (names[i], t)).ljust(margin) + v[i][b * w:(b + 1) * w])
                        for t, v in gc: body.append(("#=GC " + t).ljust(margin) + v[b * w:(b + 1) * w])
                    nl = rng.choice(["\n", "\n", "\r\n"])
                    data = (nl.join(hdr + body + ["//"]) + nl).encode("latin-1")
                    out.append(("sto-n%d-b%d-%s-%s" % (n, nblk, decl, wk), data, {"n": n, "alen": w * nblk}))
    return out


def _pad_to(prefix, rows_line, target):
    """a sequence line `prefix + text` of exactly <target> bytes (target > len(prefix))"""
    return prefix + rows_line[:target - len(prefix)]


def other_cases(rng, quick=True):
    """(name, fmt, data, expect) for the other growing readers: rows past 16/32/64, sequence lines of 127..257 bytes"""
    out = []
    fmts = ["clustal", "clustallike", "psiblast", "selex", "phylip", "phylips", "a2m", "afa"]
    # (a) row counts
    for fmt in fmts:
        for n in NSEQ:
            for nblk in ((1, 2, 3) if not quick else (rng.choice([1, 2]), 3)):
                w = rng.choice([1, 4, 9])
                L = w * nblk
                names = _names(rng, n, 10 if fmt in ("phylip", "phylips") else None)
                rows = _rows(rng, n, L, "ACGT-" if fmt not in ("phylip", "phylips") else "ACGT-")
                data = _write(rng, fmt, names, rows, w, sparse=_where(n))
                out.append(("%s-n%d-b%d" % (fmt, n, nblk), fmt, data, {"n": n, "alen": L}))
    # (b) line lengths: one block (or one record line) whose lines have exactly T bytes before the terminator
    for fmt in fmts:
        for T in LINELEN:
            for n in ((2, 17) if not quick else (rng.choice([1, 2, 17]),)):
                nmw = 10
                names = _names(rng, n, nmw)
                w = T - (nmw + 1) if fmt in ("clustal", "clustallike", "psiblast", "selex") else (T - nmw if fmt in ("phylip", "phylips") else T)
                nblk = rng.choice([1, 2])
                rows = _rows(rng, n, w * nblk)
                data = _write(rng, fmt, names, rows, w, sparse=None, tight=True)
                out.append(("%s-line%d-n%d" % (fmt, T, n), fmt, data, {"n": n, "alen": w * nblk}))
    return out


def _write(rng, fmt, names, rows, w, sparse=None, tight=False):
    n, L = len(names), len(rows[0])
    nl = rng.choice(["\n", "\n", "\r\n"])
    out = []
    margin = max(len(x) for x in names) + (1 if tight else 2)
    blocks = range(0, L, w)
    if fmt in ("clustal", "clustallike"):
        out += ["CLUSTAL W (1.83) multiple sequence alignment" if fmt == "clustal" else "MUSCLE (3.8) multiple sequence alignment", ""]
        for p in blocks:
            out.append("")
            for nm, r in zip(names, rows): out.append(nm.ljust(margin) + r[p:p + w])
            out.append(" " * margin + "".join(rng.choice("*:. ") for _ in range(len(rows[0][p:p + w]))).rstrip() if not tight else " " * margin + "*" * len(rows[0][p:p + w]))
    elif fmt == "psiblast":
        for p in blocks:
            if p: out.append("")
            for nm, r in zip(names, rows): out.append(nm.ljust(margin) + r[p:p + w])
    elif fmt == "selex":
        on_ss = set(sparse[rng.choice(sorted(sparse))]) if sparse and rng.random() < 0.7 else set()
        on_sa = set(sparse[rng.choice(sorted(sparse))]) if sparse and rng.random() < 0.4 else set()
        top = [t for t in ("#=RF", "#=CS") if sparse and rng.random() < 0.4]
        margin = max(margin, 6)
        for p in blocks:
            if p: out.append("")
            k = len(rows[0][p:p + w])
            for t in top: out.append(t.ljust(margin) + "".join(rng.choice("xX.") for _ in range(k)))
            for i, (nm, r) in enumerate(zip(names, rows)):
                out.append(nm.ljust(margin) + r[p:p + w])
                if i in on_ss: out.append("#=SS".ljust(margin) + "".join(rng.choice("HE.") for _ in range(k)))
                if i in on_sa: out.append("#=SA".ljust(margin) + "".join(rng.choice("0189") for _ in range(k)))
    elif fmt in ("phylip", "phylips"):
        out.append(" %d %d" % (n, L))
        if fmt == "phylips":
            for nm, r in zip(names, rows):
                for p in blocks: out.append((nm if p == 0 else "") + r[p:p + w])
        else:
            for p in blocks:
                if p: out.append("")
                for nm, r in zip(names, rows): out.append((nm if p == 0 else "") + r[p:p + w])
    elif fmt in ("a2m", "afa"):
        for nm, r in zip(names, rows):
            out.append(">" + nm + (" desc" if rng.random() < 0.3 else ""))
            for p in blocks: out.append(r[p:p + w])
    else:
        raise ValueError(fmt)
    return (nl.join(out) + nl).encode("latin-1")
