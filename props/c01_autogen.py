"""boundary-focused generator for format autodetection / alphabet guessing (C01, Msafile/Guess.lean):
files of every format with 0-12 / 490-510 / 4990-5010 residues, compositions around the 2 % thresholds of esl_abc_GuessAlphabet,
all-N sequences, early-stop (500/5000/50000) situations, PHYLIP files consistent with interleaved / sequential / both with name
widths 1..20 and odd headers, SELEX-looking text, every format under every file-name suffix, first-line rule edge cases,
empty / blank-only input.  `build(rng, scale)` returns a list of (data, fmt, abc, src, sfx); scale=1.0 gives ~14 700 cases."""
import random

FORMATS = ["afa", "a2m", "stockholm", "pfam", "clustal", "clustallike", "psiblast", "selex", "phylip", "phylips"]
SUFFIXES = ["sto", "sth", "stk", "afa", "afasta", "pfam", "a2m", "slx", "selex", "pb", "ph", "phy", "phyi", "phys", "txt", "x.pb", "tar.sto", "PB", "Sto"]
DNA, RNA, AA = "ACGT", "ACGU", "ACDEFGHIKLMNPQRSTVWY"



class _R:
    rng = random.Random(1)


class _RngProxy:
    def __getattr__(self, name): return getattr(_R.rng, name)


rng = _RngProxy()

def rows_of(chars, nseq, gaps=True):
    """split a residue list into nseq rows of equal length, padding with '-'"""
    L = (len(chars) + nseq - 1) // nseq if chars else 0
    rows = []
    for i in range(nseq):
        r = chars[i * L:(i + 1) * L]
        r = r + ["-"] * (L - len(r))
        rows.append("".join(r))
    return rows


def write(fmt, names, rows, width=60, namew=10, crlf=False, extra_blank=0):
    L = len(rows[0]) if rows else 0
    nl = "\r\n" if crlf else "\n"
    out = []
    blocks = [(s, min(s + width, L)) for s in range(0, max(L, 1), width)]
    if fmt in ("afa", "a2m"):
        for n, r in zip(names, rows):
            out.append(">" + n + " desc")
            for s, e in blocks: out.append(r[s:e])
    elif fmt in ("stockholm", "pfam"):
        out.append("# STOCKHOLM 1.0"); out.append("")
        if fmt == "pfam": blocks = [(0, L)]
        for s, e in blocks:
            for n, r in zip(names, rows): out.append("%-12s %s" % (n, r[s:e]))
            out.append("")
        out.append("//")
    elif fmt in ("clustal", "clustallike"):
        out.append("CLUSTAL W (1.83) multiple sequence alignment" if fmt == "clustal" else "MUSCLE (3.7) multiple sequence alignment"); out.append("")
        for s, e in blocks:
            for n, r in zip(names, rows): out.append("%-12s %s" % (n, r[s:e]))
            out.append("")
    elif fmt in ("psiblast", "selex"):
        for s, e in blocks:
            for n, r in zip(names, rows): out.append("%-12s %s" % (n, r[s:e]))
            out.append("")
    elif fmt == "phylip":
        out.append(" %d %d" % (len(rows), L))
        for bi, (s, e) in enumerate(blocks):
            for n, r in zip(names, rows):
                out.append((("%-*s" % (namew, n[:namew])) if bi == 0 else "") + r[s:e])
            for _ in range(extra_blank + 1): out.append("")
    elif fmt == "phylips":
        out.append(" %d %d" % (len(rows), L))
        for n, r in zip(names, rows):
            for bi, (s, e) in enumerate(blocks):
                out.append((("%-*s" % (namew, n[:namew])) if bi == 0 else "") + r[s:e])
            for _ in range(extra_blank): out.append("")
    return (nl.join(out) + nl).encode("latin1")


def names_for(nseq, style=0):
    if style == 0: return ["seq%d" % i for i in range(nseq)]
    if style == 1: return ["s%dx" % i for i in range(nseq)]            # lower case: not PHYLIP-legal symbols
    if style == 2: return ["ACGT%d" % i for i in range(nseq)]         # names that look like sequence
    return ["N%d_%s" % (i, "".join(rng.choice("abcXYZ.-") for _ in range(rng.randint(0, 12)))) for i in range(nseq)]


def comp(total, spec):
    """spec: list of (letters, count); remainder filled from spec[0] letters"""
    chars = []
    for letters, cnt in spec[1:]:
        chars += [rng.choice(letters) for _ in range(cnt)]
    base = spec[0][0]
    need = total - len(chars)
    if need > 0:
        chars += [base[i % len(base)] for i in range(need)]          # all letters of the base alphabet appear
    rng.shuffle(chars)
    return chars[:total] if total >= 0 else []




def build(rng_, scale=1.0):
    _R.rng = rng_
    cases = []

    def emit(data, fmt="auto", abc="guess", src="mem", sfx=None):
        cases.append((data[:200000], fmt, abc, src, sfx))

    def emit_var(data, own):
        """a file under autodetect/guess + declared/guess + autodetect/text, sometimes through a named file"""
        r = rng.random()
        emit(data, "auto", "guess")
        if r < 0.5: emit(data, own, "guess")
        if r < 0.25: emit(data, "auto", rng.choice(["text", "amino", "dna"]))
        if r > 0.7: emit(data, "auto", "guess", "allfile", rng.choice(SUFFIXES))

    def lower_some(chars, frac):
        return [c.lower() if rng.random() < frac else c for c in chars]

    # 1. residue-count boundaries per format
    for fmt in FORMATS:
        for total in list(range(0, 13)) + list(range(490, 511, 2)) + list(range(4990, 5011, 4)):
            for alpha in (DNA, AA, RNA):
                if rng.random() > scale: continue
                nseq = rng.choice([1, 1, 2, 3, 5])
                chars = comp(total, [(alpha, 0)])
                if rng.random() < 0.3: chars = lower_some(chars, 0.5)
                rows = rows_of(chars, nseq)
                data = write(fmt, names_for(nseq, rng.randint(0, 3)), rows, width=rng.choice([10, 50, 60, 501, 100000]), crlf=rng.random() < 0.1)
                emit_var(data, fmt)
        for total in (49990, 50001, 50010):
            if rng.random() > scale: continue
            chars = comp(total, [(rng.choice([DNA, AA]), 0)])
            emit(write(fmt, names_for(2), rows_of(chars, 2), width=rng.choice([60, 1000])), "auto", "guess")

    # 2. compositions around the 2 % thresholds, all-N, early stop
    for _ in range(max(1, int(1400 * scale))):
        fmt = rng.choice(FORMATS)
        n = rng.choice([11, 12, 49, 50, 51, 99, 100, 101, 149, 150, 151, 200, 450, 499, 500, 501, 502, 550, 1000, 2000, 2001, 2050, 4999, 5000, 5001, 5050])
        kind = rng.randint(0, 6)
        dthr = n // 50
        dd = max(0, dthr + rng.choice([-1, 0, 0, 1, 1, 2]))
        if kind == 0: chars = comp(n, [(DNA, 0), ("RYSWKMBDHV", dd)])
        elif kind == 1: chars = comp(n, [(RNA, 0), ("RYSWKMBDHV", dd)])
        elif kind == 2: chars = comp(n, [("ACGDHKMRSVWYNTX" + "DHKMRSVWY", 0), ("BU", dd)])
        elif kind == 3: chars = comp(n, [("N", 0), ("ACGT", rng.choice([0, 0, 1, 2]))])
        elif kind == 4: chars = comp(n, [(DNA, 0), ("N", rng.randint(0, n // 2)), ("U", rng.choice([0, 1]))])
        elif kind == 5: chars = comp(n, [(rng.choice(["ACG", "ACT", "AC", "ACGTU"]), 0), ("N", rng.randint(0, 5))])
        else: chars = comp(n, [("ACDGHKMNRSTVWY", 0), (AA, rng.choice([0, 1]))])
        nseq = rng.choice([1, 2, 4])
        if rng.random() < 0.2: chars = lower_some(chars, 0.3)
        data = write(fmt, names_for(nseq, rng.randint(0, 3)), rows_of(chars, nseq), width=rng.choice([25, 60, 120, 10000]))
        emit_var(data, fmt)
    for _ in range(max(1, int(300 * scale))):   # early stop: a DNA-looking prefix, amino-only letters later
        fmt = rng.choice(FORMATS)
        pre = rng.choice([480, 500, 501, 520, 4990, 5001, 5040])
        width = rng.choice([20, 50, 60, 100])
        chars = comp(pre, [(DNA, 0)]) + comp(rng.choice([1, 30, 600]), [(rng.choice(["EFILPQ", AA, "N"]), 0)])
        data = write(fmt, names_for(1, 1), rows_of(chars, 1), width=width)
        emit_var(data, fmt)

    # 3. PHYLIP: widths, variants, ambiguity, headers
    def phy_body(variant, nseq, L, width, namew, names, rows, sep="", hdr=None, blank_between=0):
        out = [hdr if hdr is not None else " %d %d" % (nseq, L)]
        blocks = [(s, min(s + width, L)) for s in range(0, max(L, 1), width)]
        if variant == "i":
            for bi, (s, e) in enumerate(blocks):
                for n, r in zip(names, rows):
                    out.append((("%-*s" % (namew, n[:namew])) + sep if bi == 0 else "") + r[s:e])
                for _ in range(blank_between): out.append("")
        else:
            for n, r in zip(names, rows):
                for bi, (s, e) in enumerate(blocks):
                    out.append((("%-*s" % (namew, n[:namew])) + sep if bi == 0 else "") + r[s:e])
                for _ in range(blank_between): out.append("")
        return out

    for _ in range(max(1, int(3000 * scale))):
        variant = rng.choice("is")
        nseq = rng.choice([1, 1, 2, 2, 3, 4, 5, 7])
        nblk = rng.choice([1, 1, 2, 2, 3, nseq, nseq])
        width = rng.choice([1, 2, 5, 10, 11, 20])
        L = width * nblk - rng.choice([0, 0, 0, 1]) if width * nblk > 1 else 1
        L = max(L, 1)
        namew = rng.randint(1, 20)
        style = rng.randint(0, 3)
        names = names_for(nseq, style)
        if rng.random() < 0.3: names = [n.upper() for n in names]
        alpha = rng.choice([DNA, AA, "ACGT-", "ACGT.", "AC?*"])
        rows = ["".join(rng.choice(alpha) for _ in range(L)) for _ in range(nseq)]
        if rng.random() < 0.2: rows = [r.lower() for r in rows]
        hdr = None
        r = rng.random()
        if r < 0.04: hdr = "%d %d" % (0, L)
        elif r < 0.08: hdr = "%d %d" % (nseq, 0)
        elif r < 0.12: hdr = "%d %d" % (rng.choice([2147483647, 2147483648, 99999999999, 1000000]), L)
        elif r < 0.16: hdr = "%d %d" % (nseq, rng.choice([2147483647, 4294967297, L + 1, L - 1 if L > 1 else 1]))
        elif r < 0.20: hdr = "%d %d I junk" % (nseq, L)
        elif r < 0.23: hdr = "\t%d\t%d\t" % (nseq, L)
        elif r < 0.26: hdr = "0%o 0x%x" % (nseq, L)
        elif r < 0.28: hdr = "%d" % nseq
        elif r < 0.30: hdr = "%d %d\x00" % (nseq, L)
        lines = phy_body(variant, nseq, L, width, namew, names, rows, sep=rng.choice(["", "", " ", "  "]), hdr=hdr, blank_between=rng.choice([0, 0, 1, 2]))
        # perturbations
        r = rng.random()
        if r < 0.10 and len(lines) > 2: del lines[rng.randrange(1, len(lines))]
        elif r < 0.18: lines.insert(rng.randrange(1, len(lines) + 1), rng.choice(["", " ", "\t", "   \t ", "\x0c", "\x0b", "\r", " \x0c ", "\x00", "1", "x", "ACGT"]))
        elif r < 0.24: lines.append(rng.choice(["\x0c", "\x0b", " \x0b", "\r", "(tree);", "A", "-", " ", "\x0c\x0c\x0c"]))
        elif r < 0.30:
            k = rng.randrange(1, len(lines)); lines[k] = lines[k][:rng.randint(0, len(lines[k]))]
        elif r < 0.34:
            k = rng.randrange(1, len(lines)); lines[k] = lines[k] + rng.choice([" ", "1", " 10", "A", "\t", "~", "\x01"])
        elif r < 0.38:
            k = rng.randrange(1, len(lines)); lines[k] = " " * rng.randint(1, 12) + lines[k]
        elif r < 0.41: lines = [""] * rng.randint(1, 3) + lines
        notrail = rng.random() < 0.35
        nl = "\r\n" if rng.random() < 0.07 else "\n"
        data = (nl.join(lines) + ("" if notrail else nl)).encode("latin1")
        src = rng.choice(["mem", "mem", "allfile"])
        huge = hdr is not None and any(len(t) >= 8 for t in hdr.split()[:1])        # a giant <nseq> makes the READER allocate gigabytes: keep it on the autodetection path
        sfx = rng.choice([None, None, None, "ph", "phy", "phyi", "phys", "txt", "slx", "pb"]) if src == "allfile" else None
        if huge and sfx in ("ph", "phy", "phyi", "phys"): sfx = "txt"
        emit(data, "auto", rng.choice(["guess", "guess", "text", "dna"]), src, sfx)
        if rng.random() < 0.15 and not huge: emit(data, rng.choice(["phylip", "phylips"]), "guess")

    # 3b. the over-read family: a sequential file whose last continuation line is short and all isspace
    for _ in range(max(1, int(400 * scale))):
        namew = rng.randint(1, 15)
        nseq = rng.choice([1, 1, 2, 3])
        k = rng.randint(1, 6)
        nm = "".join(rng.choice("abcdxyz_1") for _ in range(rng.randint(1, namew))).ljust(namew)
        res = "".join(rng.choice("ACGT") for _ in range(k))
        tail = rng.choice(["\x0c", "\x0b", "\r", "\x0c\x0b", " \x0c", "\x0c ", "\x0c\x0c\x0c\x0c", "\x0b\t"])
        lines = ["%d %d" % (nseq, k)]
        for i in range(nseq):
            lines.append(nm + res); lines.append(tail if i == 0 or rng.random() < 0.5 else rng.choice(["\x0c", "x"]))
        end = rng.choice(["", "", "\n", "\n\n", "\n \n", "\nA", "\n" + " " * 20, "\n" + "\x0c" * 20 + "Z"])
        data = ("\n".join(lines) + end).encode("latin1")
        emit(data, "auto", rng.choice(["text", "guess"]), rng.choice(["mem", "allfile"]))

    # 4. SELEX-looking text
    for _ in range(max(1, int(1800 * scale))):
        nblk = rng.randint(1, 5)
        nseq = rng.randint(1, 4)
        names = names_for(nseq, rng.randint(0, 3))
        lines = []
        if rng.random() < 0.15: lines += ["# comment", ""]
        for b in range(nblk):
            w = rng.randint(1, 12)
            if rng.random() < 0.1: lines.append(rng.choice(["#=RF ", "#=CS ", "#=SS ", "#=SA x ", "#=GC ", "#", "#=R", " #=RF"]) + "x" * w)
            for i in range(nseq):
                nm = names[i]
                if b > 0 and i == 0 and rng.random() < 0.1: nm = nm + "x"
                row = "".join(rng.choice(rng.choice([DNA, AA, "ACGU.-"])) for _ in range(w if rng.random() > 0.06 else w + 1))
                r = rng.random()
                if r < 0.04: lines.append(nm)
                elif r < 0.08: lines.append(nm + " " + row + " extra")
                elif r < 0.12: lines.append(rng.choice([" ", "\t", "  "]) + nm + "\t" + row + rng.choice(["", " ", "\t "]))
                elif r < 0.14: lines.append(nm + "\x00" + row)
                else: lines.append(nm + " " * rng.randint(1, 4) + row)
            if rng.random() < 0.08: lines.append(names[0] + " " + "A")      # extra row: different # of seqs per block
            lines += [rng.choice(["", "", " ", "\t", " \t "])] * rng.choice([1, 1, 2])
        if rng.random() < 0.3: lines = lines[:-1]
        data = ("\n".join(lines) + rng.choice(["\n", ""])).encode("latin1")
        src = rng.choice(["mem", "mem", "allfile"])
        sfx = rng.choice([None, "pb", "slx", "selex", "txt", "sto", "a2m", "ph"]) if src == "allfile" else None
        emit(data, "auto", rng.choice(["guess", "guess", "text"]), src, sfx)

    # 5. every format's content under every suffix
    for fmt in FORMATS:
        for sfx in SUFFIXES:
            for _ in range(2):
                if rng.random() > scale: continue
                nseq = rng.randint(1, 3)
                chars = comp(rng.choice([8, 40, 600]), [(rng.choice([DNA, AA]), 0)])
                data = write(fmt, names_for(nseq, rng.randint(0, 3)), rows_of(chars, nseq), width=rng.choice([10, 60]))
                emit(data, "auto", rng.choice(["guess", "text"]), rng.choice(["allfile", "allfile", "mmap", "file"]), sfx)
        emit(write(fmt, names_for(2), rows_of(comp(40, [(AA, 0)]), 2)), "auto", "guess", "stream", "sto")

    # 6. first-line rules and degenerate inputs
    FIRST = ["# STOCKHOLM 1.0", "# STOCKHOLM", "# STOCKHOL", "#STOCKHOLM 1.0", " # STOCKHOLM 1.0", "# stockholm 1.0", ">", ">a", " >a", "CLUSTAL", "CLUSTA", "CLUSTALW",
             "clustal W", "x multiple sequence alignment", "multiple sequence alignment", "multiple sequence alignmen", "MUSCLE (3.7) multiple  sequence alignment",
             "1 2", " 1 2", "1\t2", "1 2 3", "12", "1 a", "a 1", "1 2a", "1\x002 3", "1 \x00", "\x001 2", "0 0", "00 00", "-1 2", "+1 2", "1 2\r", "\xb9 9", "1  2   ",
             "#=RF xx", "#=CS", "#=SS x", "#=SA", "# comment", "#", "a b", "a", "a b c", "", " ", "\t", "\x00", "\x0c", "\r", "\x0b \x0b", "\xff\xfe", "a\tb"]
    REST = ["", "a ACGT\nb ACGT\n", "seq1      ACGT\nseq2      ACGT\n", ">a\nACGT\n", "//\n", "\n\n", "a b\n\na b\n", "ACGTACGTAC\n", "x         AC\n", "\x0c"]
    for f in FIRST:
        for rst in REST:
            if rng.random() > scale: continue
            for lead in ("", "\n", " \n\t\n"):
                data = (lead + f + "\n" + rst).encode("latin1")
                emit(data, "auto", "guess")
                if rng.random() < 0.3: emit(data, "auto", "text", "allfile", rng.choice(SUFFIXES))
            if rng.random() < 0.3: emit((f + rst.rstrip("\n")).encode("latin1"), "auto", "guess", "allfile", rng.choice(SUFFIXES))
    for data in [b"", b"\n", b"\n\n\n", b" ", b" \t \n \n", b"\r\n", b"\x00", b"\x00\n\x00", b"\r", b"\x0c\n", b"\n\x0c"]:
        for fmt in ["auto"] + FORMATS:
            if rng.random() > max(scale, 0.2): continue
            emit(data, fmt, "guess"); emit(data, fmt, "text", "allfile", rng.choice(SUFFIXES))

    # 7. declared formats with junk content under alphabet guessing
    for _ in range(max(1, int(800 * scale))):
        fmt = rng.choice(FORMATS)
        n = rng.randint(1, 12)
        lines = []
        for _ in range(n):
            k = rng.random()
            if k < 0.2: lines.append("")
            elif k < 0.3: lines.append(" " * rng.randint(1, 12) + "".join(rng.choice(AA + "acgt- .") for _ in range(rng.randint(0, 30))))
            elif k < 0.4: lines.append(rng.choice(["#", "# x", "#=GC SS_cons <<>>", "#=GS a DE ACGTACGT", ">", ">name ACGT", "//"]) + "".join(rng.choice(AA) for _ in range(rng.randint(0, 8))))
            else: lines.append("".join(rng.choice(AA + "acgtun  \t-.~1\x00\xe9") for _ in range(rng.randint(1, 40))))
        emit(("\n".join(lines) + rng.choice(["", "\n"])).encode("latin1"), fmt, "guess")


    return cases
