"""C01 - alignment input is total: any bytes give a normal outcome and a well-formed MSA.

Model:    lean/EaselModel/Msafile/*  (readers on the abstract LF/CRLF line reader that C05 proves ESL_BUFFER refines)
Theorems: lean/EaselModel/Props/C01.lean
Harness:  harness/h_msafile.c (real readers, ASan+UBSan+LSan, memory / file / slurped file / mmap / stream with small pages)
"""
import os, re, gzip
from vlib.engine import Prop, Failure
from props import msagen as G
from props import c01_autogen as AUTOGEN
from props import c01_growth as GROWTH
from props import c01_numtok as NUMTOK

MODELLED = ["afa", "a2m", "clustal", "clustallike", "psiblast", "phylip", "phylips", "selex", "stockholm", "pfam"]                         # formats whose reader exists in the Lean model (text + digital, declared format)
MODELLED_ABC = ["text", "amino", "dna", "rna"]
ALL_FORMATS = G.FORMATS
UNMODELLED = [f for f in ALL_FORMATS if f not in MODELLED]    # format autodetection and alphabet guessing are modelled (Msafile/Guess.lean); the ".gz" suffix branch of esl_msafile_GuessFileFormat is driven by src=named

LEAK_KEY = None
NUL_ANNOTATION_KEY = "C01:annotation:embedded-nul"
GS_AFTER_BLOCK_KEY = "C01:stockholm:gs-after-last-block"

OK_OPEN = {"ok", "enoformat", "enoalphabet"}
OK_READ = {"ok", "eof", "eformat"}


def selex_witness():
    """valid SELEX file of about 8.8 KB (item 8 of DESIGN section 7)"""
    names = ["seq%03d" % i for i in range(72)]
    row = "ACDEFGHIKLMNPQRSTVWY" * 5 + "ACDEFGHIKL"
    return ("".join("%-10s %s\n" % (n, row) for n in names)).encode()


class C01(Prop):
    id = "C01"
    lean_modules = ["EaselModel.Props.C01"]
    lean_exe = "c01_driver"
    harness = "h_msafile.c"
    theorems = ["EaselModel.Props.C01." + t for t in (
        "afaConfigs_valid", "afa_total", "afa_no_fault", "afa_eformat_has_message", "afa_ok_wellformed", "afa_read_all_total",
        "lines_partition", "strmapcat_length", "dsqcat_codes_valid",
        "a2mConfigs_valid", "a2m_total", "a2m_no_fault", "a2m_eformat_has_message", "a2m_ok_wellformed", "a2m_read_all_total",
        "clustalConfigs_valid", "clustal_total", "clustal_no_fault", "clustal_ok_wellformed",
        "psiblastConfigs_valid", "psiblast_total", "psiblast_no_fault", "psiblast_ok_wellformed",
        "phylipConfigs_valid", "phylip_total", "phylip_total_bytes", "phylip_no_fault", "phylip_eformat_has_message", "phylip_ok_wellformed",
        "phylip_read_all_total",
        "selexConfigs_valid", "selex_total", "selex_no_fault", "selex_eformat_has_message", "selex_ok_wellformed", "selex_read_all_total",
        "stoConfigs_valid", "stockholm_total", "stockholm_total_rest", "stockholm_no_fault", "stockholm_eformat_has_message", "stockholm_ok_wellformed",
        "sto_growth_keeps_lens", "sto_growth_keeps_ogr_slot", "sto_expandseq_ogr",
        "open_by_name_total", "open_gz_name", "suffix_gz_one_level", "open_gz_total", "open_gz_as_plain", "stockholmV_erase", "stockholmV_total", "stockholmV_total_rest", "stockholmV_ok_wellformed", "opened_readV_good",
        "cfgOf_valid", "opened_cfg_valid", "opened_read_good", "guess_no_fault", "open_total", "open_total_fmtd", "auto_total", "open_status_documented")] + [
        "EaselModel.Msafile.openModelW_zero", "EaselModel.Msafile.openModelW_auto", "EaselModel.Msafile.openModelW_no_fault",
        "EaselModel.Msafile.guessFormat_no_fault", "EaselModel.Msafile.guessAlphabet_no_fault", "EaselModel.Msafile.checkSeqUnknown_no_fault",
        "EaselModel.Msafile.openModel_no_fault", "EaselModel.Msafile.phylipReadW_good",
        "EaselModel.Msafile.stockholmRead_good", "EaselModel.Msafile.stockholmRead_nofault",
        "EaselModel.Msafile.phylipRead_good", "EaselModel.Msafile.selexRead_good",
        "EaselModel.Msafile.afaRead_good", "EaselModel.Msafile.a2mRead_good", "EaselModel.Msafile.clustalRead_good",
        "EaselModel.Msafile.psiblastRead_good", "EaselModel.Msafile.runLines_inv",
        "EaselModel.Msafile.expandAll_inv", "EaselModel.Msafile.pdExpandSeq_sqlen", "EaselModel.Msafile.pdExpandSeq_perLen", "EaselModel.Msafile.pdExpandSeq_ogrLen",
        "EaselModel.Msafile.pdExpandSeq_rest", "EaselModel.Msafile.msaExpand_rows", "EaselModel.Msafile.msaExpand_gr",
        "EaselModel.Msafile.stockholmReadV_erase", "EaselModel.Msafile.patchMsa_wellFormed", "EaselModel.Msafile.stockholmReadV_good",
        "EaselModel.Msafile.openGz_efail_msg", "EaselModel.Msafile.fmtBySuffix_gz", "EaselModel.Msafile.fmtBySuffix_gz_same", "EaselModel.Msafile.openModelW_name", "EaselModel.Msafile.openByName_enotfound_msg", "EaselModel.Msafile.openByName_enotfound_iff", "EaselModel.Msafile.stockholmReadV_ok", "EaselModel.Msafile.stockholmReadV_rest", "EaselModel.Msafile.Opened.readV_good"]
    claimed = True
    technique = ("Lean 4 proof (totality, fault-freedom and well-formedness of an executable line-by-line model of the alignment readers, bounds-checked "
                 "auxiliary arrays) + exact differential correspondence of the model with the ASan/UBSan/LSan-built readers + property monitors on all ten formats")
    level_text = ("FULL over the model (declared format or autodetection, text mode or digital mode with a supplied or guessed alphabet). Theorems (no size bound, every byte string, text mode and digital mode with "
                  "amino/DNA/RNA alphabets whose tables are regenerated from the C code each run) for the OPEN PATH msafile_OpenBuffer (openModel: esl_msafile_GuessFileFormat with its suffix table and first-line rules, "
                  "msafile_check_selex, esl_msafile_phylip_CheckFileFormat = phylip_check_interleaved + collate_colcodes + deduce_namewidth, phylip_check_sequential_known, "
                  "phylip_check_sequential_unknown with rth[] and the returned name width that then configures the PHYLIP reader; esl_msafile_GuessAlphabet = the seven per-format "
                  "line scanners with the 500/5000/50000 early stops + esl_abc_GuessAlphabet with exact 50*d <= n arithmetic; esl_alphabet_Create + per-format SetInmap): the open path "
                  "answers ok / enoformat / enoalphabet and never faults (ct[] and p[w]/p[i<w] accesses bounds-checked), enoformat only under autodetection, enoalphabet only under guessing, "
                  "the same when the caller hands esl_msafile_Open* an ESL_MSAFILE_FMTDATA with any PHYLIP name width (openModelW, open_total_fmtd; autodetection re-initialises it), "
                  "every configuration it can build (10 formats x text/RNA/DNA/amino) is valid and every read of the resolved reader (PHYLIP: with the autodetected name width) is good; and for ALL TEN declared formats - aligned FASTA, A2M (incl. padding), "
                  "Clustal, Clustal-like, PSI-BLAST, PHYLIP interleaved and sequential (incl. header parsing and pushed-back lines), SELEX, Stockholm and Pfam (block "
                  "invariant over sqlen/sslen/salen/pplen/ogc_len/ogr_len/bi/npb): one esl_msafile_Read returns ok / eof / eformat-with-message, the bounds-checked "
                  "line-by-line model never faults (every auxiliary array carries the allocation size the C code computes) and never raises an internal exception, and an "
                  "alignment returned with ok is well formed (>=1 sequence, every row and every per-column / per-residue annotation incl. unparsed #=GC/#=GR of length alen, "
                  "text rows NUL-free, digital rows sentinel-delimited with codes < Kp, weights all default or all set); the abstract LF/CRLF line reader partitions the "
                  "input. The numeric payload of Stockholm #=GS WT weights and #=GF GA/NC/TC cut-offs is in the model (Msafile/StoNum.lean: strtod on the longest valid "
                  "prefix of the token, decimal and hexadecimal syntax correctly rounded in exact integer arithmetic, (float) second rounding for cut-offs, infinities exact, NaN "
                  "canonical) through stockholmReadV, proved equal to stockholmRead up to wgt/cutoff (stockholmV_erase) so that totality / no fault / well-formedness transfer. "
                  "esl_msafile_Open by name (Msafile/OpenByName.lean, open_by_name_total): eslENOTFOUND + message + afp in an error state exactly when the name is no regular file "
                  "(missing in the working directory and the $env list, or a directory), else the open-buffer outcome; op `openerr` drives it on the real code. "
                  "The growth step of the Stockholm reader (esl_msa_Expand + stockholm_parsedata_ExpandSeq at the 17th/33rd/65th name) is stated slot by slot (sto_growth_keeps_lens: "
                  "old slots of sqlen/sslen/salen/pplen/every ogr_len[tag] keep their value, new slots 0). "
                  "The hand models are tied to the working tree by an exact differential run (status sequence + full MSA dump compared bit for bit incl. weights and cut-offs; "
                  "only NaN payloads canonicalised); a divergence is a violation with a shrunk replay. All formats + autodetection + alphabet guessing are additionally exercised on the real ASan/UBSan/LSan-built "
                  "readers with property monitors (status set, message on eformat, esl_msa_Validate + independent field-length/sentinel/weight checks on every field, "
                  "per-operation leak check, no ESL_EXCEPTION, identical result from memory / file / slurped / mmap / small-page stream sources). Generators beyond mutation/grammar/raw: "
                  "block anomalies, allocation-growth boundaries (lines per block 15..33; 16/17/32/33/64/65 sequences with sparse parsed/unparsed #=GR and #=SS/#=SA), NUL-only and "
                  "NUL+blank lines adjacent to the blocks of every line-oriented format (esl_memspn/esl_memtok agreement), PHYLIP files of name width 1..25 opened with a matching / "
                  "non-matching / unset FMTDATA name width, the open path at its decision boundaries; enumerated valid-by-construction growth shapes (props/c01_growth.py: Stockholm "
                  "16/17/32/33/64/65 sequences x 2-3 blocks x sparse unparsed/parsed #=GR, #=GC before/at/after each doubling x names from the block or a complete/partial/permuted "
                  "#=GS header; the other eight readers with the same row counts and 127..257-byte lines; monitor: read back as n x alen); numeric tokens (props/c01_numtok.py: "
                  "printf forms, midpoints of adjacent doubles/floats, subnormal/overflow thresholds, 127..129-byte tokens, hex constants, junk after a valid prefix).")
    level_note = ("Format autodetection and alphabet guessing are in the model and in the theorems (AUTODETECT section of Props/C01.lean); the 0.02*n double comparisons of esl_abc_GuessAlphabet are "
                  "modelled as exact integer tests 50*d <= n (equal to the binary64 comparison for every n < 2^50; confirmed on every generated case); the '.gz' suffix branch of "
                  "esl_msafile_GuessFileFormat is modelled, proved transparent one level deep (open_gz_name) and driven on the real code by `src=named` (esl_buffer_OpenFile + esl_msafile_OpenBuffer on a file of that name; esl_buffer_Open itself would pipe it through gzip). Trusted: Lean kernel + propext/Classical.choice/Quot.sound; fidelity of the hand models is checked (not proved) by the "
                  "differential run; ESL_BUFFER's refinement to the abstract line reader is property C05 (SELEX line pointers are abstracted to line contents); keyhash "
                  "lookups are abstracted to first-index-by-name (C19); allocation never fails; leaks are outside the model (LeakSanitizer per operation). "
                  "No known finding: C01:selex-stream:stable-anchor-uaf was repaired by 188d0b6 and C01:check-selex:plain-anchor-uaf (msafile_check_selex kept <firstname> under a plain anchor; found when the "
                  "one-page restriction was lifted) by a79e6aa: SELEX and autodetected inputs of any size go through stream and file-mode sources with every page size.")
    diverge_is_violation = True     # every op is a deterministic function of (bytes, format, alphabet, source) that the model specifies exactly (all ten readers + the open path)
    quick_budget_s = 75
    thorough_budget_s = 900
    trusted_base = ["hand model of the open path of esl_msafile.c (msafile_OpenBuffer, esl_msafile_GuessFileFormat, msafile_check_selex, esl_msafile_GuessAlphabet), esl_msafile_phylip.c (CheckFileFormat and its five helpers), "
                    "the seven esl_msafile_*_GuessAlphabet, esl_alphabet.c esl_abc_GuessAlphabet, easel.c esl_file_Extension; hand model of esl_msafile_afa.c, esl_msafile_a2m.c (incl. a2m_padding_*), esl_msafile_clustal.c, esl_msafile_psiblast.c, esl_msafile_phylip.c (interleaved + sequential, esl_mem_strtoi32 header), esl_msafile_selex.c (block reader, lpos/rpos, annotation lines; line pointers abstracted), esl_msafile_stockholm.c (ESL_STOCKHOLM_PARSEDATA, the six line parsers, block invariant over sqlen/sslen/salen/pplen/ogc_len/ogr_len/bi/npb; keyhash lookups abstracted to first-index-by-name; numeric payload of weights and cut-offs = glibc strtod modelled in StoNum.lean, NaN payload canonicalised) readers (+ easel.c esl_strmapcat, esl_alphabet.c esl_abc_dsqcat, esl_mem.c esl_memtok/esl_memspn, esl_msa.c setters) "
                    "tied by exact differential run (h_msafile.c, ASan+UBSan+LSan build of the working tree)",
                    "abstract line reader (split at LF, one CR stripped before LF): ESL_BUFFER's refinement to it is property C05, assumed here and re-checked "
                    "by running every input through memory, file, slurped-file, mmap and small-page stream sources and demanding identical results",
                    "Lean compiler/runtime for the executable driver; gcc; sanitizer runtimes"]
    assumptions = ["allocation never fails (eslEMEM paths not modelled)",
                   "glibc strtod in the C locale converts the longest valid prefix, correctly rounded to nearest-even (the model IS correct rounding in integer arithmetic); "
                   "confirmed bit for bit by the differential run on every generated token, not proved about glibc; NaN payloads canonicalised",
                   "esl_msafile_Open by name: what the file system answers (PathKind) and what `gzip -dc` does on a .gz name (GzKind: fails, or delivers bytes) are parameters of the model; stdin '-' and a gzip that fails after more than a page of output are not modelled",
                   "C locale ctype (isspace/isgraph/isalpha on bytes 0..127; bytes >= 0x80 are not space/graph/alpha)",
                   "leaks are outside the model: LeakSanitizer per operation in the harness is support, not proof",
                   "alignment sizes fit C int / int64_t (inputs explored up to 64 KiB); residue counts of the alphabet guessers fit int (x = ct[...] is an int) and n < 2^50 (0.02*n exact enough)"]
    rule = ("cases = (bytes, format selection, alphabet mode, input source, page size); non-trivial = at least one alignment returned with eslOK "
            "or a format error raised after at least one parsed line; distinct by full output trace (status sequence + complete MSA dump)")

    def generated(self, ctx):
        from translate import msafile_tables
        return {"EaselModel/Msafile/AbcTables.lean": msafile_tables.generate(ctx.src, ctx.work)}

    # ------------------------------------------------------------------------------------------
    def _op(self, data, fmt, abc, src="mem", ps=0, sfx=None, nw=None):
        s = "parse fmt=%s abc=%s src=%s ps=%d" % (fmt, abc, src, ps)
        if sfx: s += " sfx=" + sfx
        if nw is not None: s += " nw=%d" % nw
        return s + " hex=" + G.hx(data)

    def corpus(self, ctx):
        c = []
        def add(name, data, fmt, abc="text", src="mem", ps=0, **kw):
            c.append(dict({"name": name, "ops": [self._op(data, fmt, abc, src, ps)]}, **kw))
        # DESIGN section 7 witnesses (all fixed; kept as regression cases)
        for abc in ("text", "dna"):
            add("item5-afa-ff", b"\x0c", "afa", abc); add("item5-a2m-ff", b"\x0c", "a2m", abc)
            add("item6-a2m-empty-record", b">a\n>b\nAC\n", "a2m", abc)
            add("item7-a2m-zero-consensus", b">a\nacgt\n>b\nACGT" + b"a" * 40 + b"\n", "a2m", abc)
            blk = lambda k: b"".join(b"s%02d ACGT\n" % i for i in range(k)) + b"    ****\n\n"
            add("item15-clustal-extra-rows", b"CLUSTAL W (1.83) multiple sequence alignment\n\n" + blk(16) + blk(17), "clustal", abc)
            add("item15-psiblast-extra-rows", b"".join(b"s%02d ACGT\n" % i for i in range(16)) + b"\n" + b"".join(b"s%02d ACGT\n" % i for i in range(17)), "psiblast", abc)
            add("item16-phylip-nseq0", b"0 10\n", "phylip", abc); add("item16-phylip-nseq-neg", b"-1 10\n", "phylip", abc)
            add("item16-phylips-nseq0", b"0 10\n", "phylips", abc); add("item16-phylip-alen0", b"2 0\naaaaaaaaaa\nbbbbbbbbbb\n", "phylip", abc)
            add("item17-phylips-truncated", b" 2 6\naaaaaaaaaaACGTAC\nbbbbbbbbbbACGT\n", "phylips", abc)
            add("item18-selex-cs-width", b"#=CS <<>>..\na ACGT\nb ACGT\n", "selex", abc)
            add("item18-selex-rf-short", b"#=RF xx\na ACGT\nb ACGT\n", "selex", abc)
            add("item18-selex-ss-long", b"a ACGT\n#=SS <<>>>>>>\nb ACGT\n", "selex", abc)
        add("leak-afa", b">a\nAC\n>b\nACG\n", "afa"); add("leak-a2m", b">a\nAC\n>b\nACG\n", "a2m")
        add("leak-psiblast", b"a ACG\nb AC!\n", "psiblast"); add("leak-selex", b"a ACG\nb ACG\n\na ACG\n", "selex")
        add("leak-clustal", b"CLUSTAL W (1.83) multiple sequence alignment\n\na ACG\nb AC\n", "clustal")
        # item 8 (fixed by 188d0b6: buffer_refill() no longer moves / reallocs the window under a stable anchor): plain regression cases
        for src, ps in (("stream", 0), ("file", 0), ("stream", 16), ("file", 64), ("stream", 4096)):
            add("item8-selex-%s-%d" % (src, ps), selex_witness(), "selex", "text", src, ps)
            add("item8-auto-selex-%s-%d" % (src, ps), selex_witness(), "auto", "guess", src, ps)
        # a79e6aa: msafile_check_selex() kept <firstname> under a plain anchor (use-after-free at the second block, autodetection from a stream)
        for src, ps in (("stream", 0), ("stream", 16), ("file", 64), ("file", 0)):
            add("check-selex-two-blocks-%s-%d" % (src, ps), selex_witness() + b"\n" + selex_witness(), "auto", "text", src, ps)
        phy = (" 72 110\n" + "".join("seq%03d    %s\n" % (i, "ACDEFGHIKLMNPQRSTVWY" * 5 + "ACDEFGHIKL") for i in range(72))).encode()
        for src, ps in (("stream", 0), ("stream", 16), ("file", 64)):
            add("item8-auto-phylip-%s-%d" % (src, ps), phy, "auto", "text", src, ps)
        add("selex-only-cs", b"#=CS <<>>\n", "selex"); add("selex-cr", b"\r", "selex", "amino"); add("selex-rf-then-block", b"#=RF x\n\nseq1 ACGT\n", "selex")
        add("nul-in-selex-cs", b"#=CS xx\x00xx\nseq1 ACDEF\nseq2 ACDEF\n", "selex")
        add("nul-in-stockholm-gc", b"# STOCKHOLM 1.0\nseq1 ACDEF\n#=GC SS_cons xx\x00xx\n//\n", "stockholm")
        add("sto-gs-after-last-block", b"# STOCKHOLM 1.0\nseq1 ACDEF\n\n#=GS seq2 DE foo\n//\n", "stockholm")
        add("sto-gs-unseen-name-before", b"# STOCKHOLM 1.0\n#=GS seq2 WT 1.0\nseq1 ACGT\n//\n", "stockholm", "dna")
        add("sto-gs-unseen-name-inside", b"# STOCKHOLM 1.0\nseq1 ACDEF\n#=GS seq2 AC foo\n//\n", "pfam")
        # 810fb33: Clustal / PSI-BLAST readers stored a name cut at an embedded NUL (empty when the NUL came first)
        for abc in ("text", "amino"):
            for nm in (b"a\x00b", b"\x00ab", b"ab\x00"):
                add("clustal-nul-in-name", b"CLUSTAL W (1.83) multiple sequence alignment\n\n" + nm + b" ACGT\nseq2 ACGT\n", "clustal", abc)
                add("psiblast-nul-in-name", nm + b" ACGT\nseq2 ACGT\n", "psiblast", abc)
                add("clustal-nul-in-name-block2", b"CLUSTAL W (1.83) multiple sequence alignment\n\nab ACGT\nseq2 ACGT\n\n" + nm + b" ACGT\nseq2 ACGT\n", "clustallike", abc)
        add("empty", b"", "auto", "guess"); add("empty-afa", b"", "afa", "text"); add("nul", b"\x00", "auto")
        # ef67b6d: phylip_check_sequential_unknown() tested p[0..w-1] on the LAST continuation line (heap over-read, visible on exact-size buffers)
        for src in ("allfile", "mmap", "mem"):
            add("phylip-autodetect-lastline-" + src, b"1 2\nname AC\n\x0c", "auto", "text", src)
            add("phylip-autodetect-lastline2-" + src, b"2 3\nabcdefgh  ACG\n\x0b\nabcdefgh  ACG\n\x0c", "auto", "guess", src)
        return c

    def _config(self, rng, own_fmt, n):
        r = rng.random()
        fmt = own_fmt if (r < 0.6 and own_fmt) else ("auto" if r < 0.8 else rng.choice(ALL_FORMATS))
        abc = rng.choice(["text", "text", "amino", "dna", "guess", "guess"])
        return fmt, abc

    def _sources(self, rng, fmt, n):
        """2 sources per input: memory + one buffered source (every format, every size: the stable-anchor defect is repaired)"""
        out = [("mem", 0)]
        src = rng.choice(["stream", "stream", "file", "file", "allfile", "mmap"])
        if n == 0 and src == "mmap": src = "allfile"      # mmap() of an empty file cannot happen without the hook (empty files are slurped)
        ps = rng.choice([2, 3, 4, 5, 7, 8, 16, 17, 64, 512, 4096, 0]) if src in ("stream", "file") else 0
        out.append((src, ps))
        return out

    def cases(self, ctx):
        rng = ctx.rng
        quick = ctx.tier == "quick"
        files = G.load_testfiles(ctx.src)
        if not any(files.get(d) for d in ("stockholm", "afa", "selex")):      # scratch copy pruned by a concurrent build: read the repo itself
            from vlib import engine as _engine
            files = G.load_testfiles(_engine.REPO)
        allfiles = [b for v in files.values() for _, b in v]
        out = []
        stats = ctx.stats.setdefault("generator", {"kinds": {}, "formats": {}, "abc": {}, "sources": {}, "bytes_total": 0, "max_len": 0})

        def emit(kind, data, own_fmt):
            data = data[:65536]
            fmt, abc = self._config(rng, own_fmt, len(data))
            ops = []
            sfx = None
            if fmt == "auto" and rng.random() < 0.3:
                sfx = rng.choice(["sto", "sth", "stk", "afa", "afasta", "pfam", "a2m", "slx", "selex", "pb", "ph", "phy", "phyi", "phys", "txt"])
            for src, ps in self._sources(rng, fmt, len(data)):
                ops.append(self._op(data, fmt, abc, src, ps, sfx if src != "mem" else None))
                stats["sources"][src] = stats["sources"].get(src, 0) + 1
            stats["kinds"][kind] = stats["kinds"].get(kind, 0) + 1
            stats["formats"][fmt] = stats["formats"].get(fmt, 0) + 1
            stats["abc"][abc] = stats["abc"].get(abc, 0) + 1
            stats["bytes_total"] += len(data); stats["max_len"] = max(stats["max_len"], len(data))
            out.append({"name": "%s%d" % (kind, len(out)), "ops": ops, "sfx": sfx})

        # 1. every test file, unmodified, under its own format, autodetect and one foreign format
        for d, lst in sorted(files.items()):
            for fn, b in lst:
                own = [f for f in ALL_FORMATS if G.FMT_DIR[f] == d]
                for f in own[:2] + ["auto"]:
                    for abc in ("text", "guess"):
                        ops = [self._op(b, f, abc, s, p) for s, p in self._sources(rng, f, len(b))]
                        out.append({"name": "file:%s:%s:%s" % (fn, f, abc), "ops": ops})
        n_mut = 700 if quick else 14000
        n_gen = 700 if quick else 14000
        n_raw = 250 if quick else 5000
        # 2. structure-aware mutations of the test files
        pool = [(d, b) for d, lst in sorted(files.items()) for _, b in lst]
        for _ in range(n_mut):
            d, b = rng.choice(pool)
            own = [f for f in ALL_FORMATS if G.FMT_DIR[f] == d]
            emit("mut", G.mutate(rng, b, allfiles), rng.choice(own) if own else None)
        # 3. grammar-generated valid / near-valid files per format
        for i in range(n_gen):
            fmt = ALL_FORMATS[i % len(ALL_FORMATS)]
            small = rng.random() < (0.85 if quick else 0.6)
            data, _ = G.valid_file(rng, fmt, small=small)
            if rng.random() < 0.55: data = G.mutate(rng, data, allfiles)
            emit("gen", data, fmt)
        # 3b. block-structure anomalies (Stockholm / SELEX per-block bookkeeping)
        for i in range(240 if quick else 5000):
            f = ("stockholm", "selex", "stockholm")[i % 3]
            emit("blk", G.block_anomaly(rng, f), f if rng.random() < 0.8 else ("pfam" if f == "stockholm" else f))
        # 3c. allocation-growth boundaries (blocks of exactly 16/32 lines, 16/17/32/33 sequences, 16+/32+ comments and #=GF lines, many tags)
        for i in range(120 if quick else 2500):
            f = ("stockholm", "stockholm", "selex")[i % 3]
            emit("alloc", G.alloc_boundary(rng, f), f if rng.random() < 0.85 else ("pfam" if f == "stockholm" else "auto"))
        # 3d. alphabet guessing must stop early on whole lines once 500 / 5000 residues are seen
        for f in ("afa", "a2m", "psiblast", "selex", "clustal", "stockholm", "phylip"):
            for T, exact in ((500, True), (500, False), (5000, True)):
                data = G.earlystop_file(rng, f, T, exact)
                out.append({"name": "early-%s-%d-%d" % (f, T, len(out)), "ops": [self._op(data, f, "guess", "mem", 0), self._op(data, "auto", "guess", "mem", 0)]})
        # 3e. one NUL / DEL / non-ASCII byte inside the residue text, every format, text and digital
        for i in range(200 if quick else 3000):
            f = ALL_FORMATS[i % len(ALL_FORMATS)]
            data = G.odd_byte_in_residues(rng, f)
            ops = [self._op(data, f, abc, "mem", 0) for abc in rng.sample(["text", "amino", "dna", "rna"], 2)]
            out.append({"name": "odd%d" % len(out), "ops": ops})
        # 3f. a line made only of NUL bytes (or NUL + blanks/tabs) ADJACENT to a block, every line-oriented format, text and digital:
        #     the "blank line" test (esl_memspn) and the tokenizer (esl_memtok) must agree on it, or the block readers meet a
        #     block line without a token ("can't happen" exceptions of selex_first_block / selex_other_block)
        for i in range(260 if quick else 4000):
            f = "selex" if i % 5 < 2 else ALL_FORMATS[(i // 5 * 3 + i % 5) % len(ALL_FORMATS)]
            data = G.nul_line_adjacent(rng, f)
            abcs = rng.sample(["text", "amino", "dna", "rna"], 2)
            ops = [self._op(data, f, abc, "mem", 0) for abc in abcs]
            if rng.random() < 0.3: ops.append(self._op(data, f, abcs[0], rng.choice(["stream", "file"]), rng.choice([2, 5, 16, 0])))
            if rng.random() < 0.2: ops.append(self._op(data, "auto", abcs[0], "mem", 0))
            stats["kinds"]["nulline"] = stats["kinds"].get("nulline", 0) + 1
            stats["formats"][f] = stats["formats"].get(f, 0) + 1
            out.append({"name": "nulline%d" % len(out), "ops": ops})
        # 3g. the reader's format option: PHYLIP files written with a name field of width k, opened with an ESL_MSAFILE_FMTDATA whose
        #     namewidth is k / another width / 0 (unset), declared and autodetected (autodetection forgets the caller's value), text/digital/guess
        for i in range(180 if quick else 3000):
            f = ("phylip", "phylips")[i % 2]
            k = rng.choice([1, 2, 4, 7, 9, 10, 11, 14, 25])
            a = G.rand_aln(rng, rng.choice(["amino", "dna"]), rng.choice([1, 2, 3, 5, 17]), rng.choice([1, 5, 20, 61, 130]), gapchars="-", maxname=max(k, 1),
                           namechars="abcdefghijklmnopqrstuvwxyzABCDEFGHIJKLMNOPQRSTUVWXYZ0123456789_")
            data = G.w_phylip(a, rng, rng.choice(["\n", "\n", "\r\n"]), rng.choice([60, 60, 13]), seq=(f == "phylips"), namew=k).encode("latin-1")
            if rng.random() < 0.4: data = G.mutate(rng, data, allfiles)
            nw = rng.choice([k, k, k, 0, 10, k + 1, max(k - 1, 0), 40])
            abc = rng.choice(["text", "amino", "dna", "guess"])
            ops = [self._op(data, f, abc, "mem", 0, nw=nw)]
            r = rng.random()
            if r < 0.3: ops.append(self._op(data, "auto", abc, "mem", 0, nw=nw))
            elif r < 0.6: ops.append(self._op(data, f, abc, rng.choice(["stream", "file", "allfile"]), rng.choice([3, 16, 0]), nw=nw))
            stats["kinds"]["phynw"] = stats["kinds"].get("phynw", 0) + 1
            stats["formats"][f] = stats["formats"].get(f, 0) + 1
            out.append({"name": "phynw%d" % len(out), "ops": ops})
        # 3h. allocation-growth shapes, ENUMERATED (props/c01_growth.py), every file valid by construction (`expect`): Stockholm with
        #     16/17/32/33/64/65 sequences x 2-3 blocks x sparse unparsed/parsed #=GR and #=GC markup before / at / after each doubling point x
        #     names introduced by the block or by a complete / partial / permuted #=GS header; the other growing readers with the same row
        #     counts and with sequence lines of 127..257 bytes
        for nm, data, exp in GROWTH.stockholm_cases(rng, quick):
            f2 = rng.choice(["stockholm", "pfam", "auto"]); a2 = rng.choice(["amino", "dna", "text", "guess"])
            s2, p2 = rng.choice([("stream", 16), ("file", 64), ("stream", 0), ("allfile", 0), ("mem", 0)])
            ops = [self._op(data, "stockholm", "text", "mem", 0), self._op(data, f2, a2, s2, p2)]
            stats["kinds"]["growth-sto"] = stats["kinds"].get("growth-sto", 0) + 1
            out.append({"name": "growth:" + nm, "ops": ops, "expect": exp})
        for nm, f, data, exp in GROWTH.other_cases(rng, quick):
            a2 = rng.choice(["amino", "dna"])
            s2, p2 = rng.choice([("stream", 16), ("file", 128), ("stream", 0), ("file", 0), ("allfile", 0), ("mmap", 0)])
            ops = [self._op(data, f, "text", "mem", 0), self._op(data, f, a2, s2, p2)]
            stats["kinds"]["growth-" + f] = stats["kinds"].get("growth-" + f, 0) + 1
            out.append({"name": "growth:" + nm, "ops": ops, "expect": exp})
        # 3i. the numeric payload of Stockholm weights and cut-offs (props/c01_numtok.py): printf forms, midpoints of adjacent doubles /
        #     floats, subnormal / overflow thresholds, 127..129-byte tokens (esl_memtod's fixed buffer), hex constants, junk after a valid prefix
        for i in range(700 if quick else 12000):
            data, used = NUMTOK.num_file(rng)
            f = rng.choice(["stockholm", "stockholm", "pfam", "auto"]); abc = rng.choice(["text", "text", "amino", "dna"])
            ops = [self._op(data, f, abc, "mem", 0)]
            if rng.random() < 0.25: ops.append(self._op(data, "stockholm", "text", rng.choice(["stream", "file"]), rng.choice([3, 64, 0])))
            stats["kinds"]["numtok"] = stats["kinds"].get("numtok", 0) + 1
            stats["bytes_total"] += len(data); stats["max_len"] = max(stats["max_len"], len(data))
            out.append({"name": "numtok%d" % len(out), "ops": ops})
        # 3j. esl_msafile_Open() by name: a name that is no file, a directory, a name found (or not) through the <env> directory list
        for what in ("missing", "dir", "envmissing"):
            for f, abc in (("auto", "text"), ("stockholm", "guess"), ("afa", "amino"), (rng.choice(ALL_FORMATS), rng.choice(["text", "dna", "guess"]))):
                out.append({"name": "openerr-%s-%s-%s" % (what, f, abc), "ops": ["openerr what=%s fmt=%s abc=%s" % (what, f, abc)]})
        for i in range(40 if quick else 600):
            d, b = rng.choice(pool)
            own = [f for f in ALL_FORMATS if G.FMT_DIR[f] == d]
            data = b if rng.random() < 0.6 else G.mutate(rng, b, allfiles)
            f = rng.choice(own + ["auto", "auto"]); abc = rng.choice(["text", "guess", "amino", "dna"])
            sfx = rng.choice(["sto", "afa", "a2m", "slx", "pb", "phy", "phys", "txt", "dat"])
            ops = ["openerr what=envfile fmt=%s abc=%s sfx=%s hex=%s" % (f, abc, sfx, G.hx(data)), self._op(data, f, abc, "allfile", 0, sfx)]
            stats["kinds"]["openerr"] = stats["kinds"].get("openerr", 0) + 1
            out.append({"name": "openenv%d" % len(out), "ops": ops, "sfx": sfx})
        # 3k. the file name the open path sees (`src=named tail=`: esl_buffer_OpenFile + esl_msafile_OpenBuffer on a file called h_msafile_<pid><tail>):
        #     the ".gz" branch of the suffix rule (one level only), suffixes of every table entry with and without ".gz", case, empty, dots
        tails = [".gz", "..gz", ".gz.gz", "gz", ".GZ", ".gzip", ".", "", ".sto.gz.gz", ".sto.GZ", ".STO.gz", ".sto.gz.", ".x.sto.gz", ".sto.x.gz", ".stogz", ".sto..gz"]
        sfxs = ["sto", "sth", "stk", "afa", "afasta", "pfam", "a2m", "slx", "selex", "pb", "ph", "phy", "phyi", "phys", "txt", "fa", "st", "stoo"]
        for i in range(110 if quick else 1500):
            d, b = rng.choice(pool)
            data = b if rng.random() < 0.75 else G.mutate(rng, b, allfiles)
            # a suffix that DECIDES the format for this content (pfam on Stockholm text, a2m on aligned FASTA, phys on PHYLIP, pb on SELEX-like text ...)
            decisive = {"stockholm": ["pfam"], "afa": ["a2m"], "a2m": ["a2m", "afa"], "phylip": ["phys", "ph"], "phylips": ["phys", "phyi"],
                        "selex": ["pb", "slx"], "psiblast": ["pb", "slx"], "clustal": ["slx"]}.get(d, ["pfam"])
            r = rng.random()
            if r < 0.2: tail = rng.choice(tails)
            else:
                tail = "." + (rng.choice(decisive) if r < 0.75 else rng.choice(sfxs)) + rng.choice([".gz", ".gz", "", ".gz.gz", ".gz.gz", ".GZ", ".gz.", ".x.gz"])
            if rng.random() < 0.25: tail = rng.choice([".pfam", ".a2m", ".d.sto", ".gz", ".slx.gz"]) + "/" + rng.choice(["f", "f.gz", "f.txt", "f" + tail])   # a '.' in a directory name is no suffix
            abc = rng.choice(["text", "guess", "amino"])
            op = lambda t: "parse fmt=auto abc=%s src=named ps=0 tail=%s hex=%s" % (abc, G.hx(t.encode()), G.hx(data))
            ops = [op(tail)]
            if tail.endswith(".gz") and rng.random() < 0.5: ops.append(op(tail[:-3]))       # open_gz_name: the same answer (unless the name ends in .gz.gz)
            stats["kinds"]["named"] = stats["kinds"].get("named", 0) + 1
            out.append({"name": "named%d" % len(out), "ops": ops, "sfx": tail})
        # 3l. esl_msafile_Open() on a real <name>.<sfx>.gz: gzip data (read through the `gzip -dc` pipe, suffix before .gz as format hint),
        #     or something gzip refuses (plain text, random bytes, truncated gzip data of a small file): eslFAIL with a message
        for i in range(60 if quick else 800):
            d, b = rng.choice(pool)
            data = b if rng.random() < 0.7 else G.mutate(rng, b, allfiles)
            own = [f for f in ALL_FORMATS if G.FMT_DIR[f] == d]
            f = rng.choice(own + ["auto", "auto", "auto"]); abc = rng.choice(["text", "guess", "amino", "dna"])
            sfx = rng.choice(["sto", "pfam", "afa", "a2m", "slx", "pb", "phy", "phys", "txt", "dat"])
            z = gzip.compress(data, 6, mtime=0)
            r = rng.random()
            if r < 0.7 and len(data) > 0: op = "openerr what=gz fmt=%s abc=%s sfx=%s hex=%s unz=%s" % (f, abc, sfx, G.hx(z), G.hx(data))
            else:
                small = gzip.compress(data[:2000], 6, mtime=0)
                bad = rng.choice([data[:3000] or b"x", bytes(rng.randrange(256) for _ in range(rng.randrange(1, 200))), small[:rng.randrange(1, len(small))], small[:-4], b"\x1f\x8b"])
                if bad[:2] == b"\x1f\x8b" and bad == small: bad = small[:-1]
                op = "openerr what=gz fmt=%s abc=%s sfx=%s hex=%s" % (f, abc, sfx, G.hx(bad))
            stats["kinds"]["gzpipe"] = stats["kinds"].get("gzpipe", 0) + 1
            out.append({"name": "gzpipe%d" % len(out), "ops": [op], "sfx": sfx})
        # 4. raw bytes
        for _ in range(n_raw):
            emit("raw", G.raw_bytes(rng), rng.choice(ALL_FORMATS + [None]))
        # 5. the open path at its decision boundaries (props/c01_autogen.py): residue counts around 10 / 500 / 5000 / 50000, compositions
        #    around the 2 % thresholds, PHYLIP variants / name widths / headers, SELEX-looking text, suffixes, first-line rules
        for data, fmt, abc, src, sfx in AUTOGEN.build(rng, 0.03 if quick else 0.4):
            ops = [self._op(data, fmt, abc, src, 0, sfx if src != "mem" else None)]
            if src != "mem" and sfx is None: ops.append(self._op(data, fmt, abc, "mem", 0))
            if src == "mem" and rng.random() < 0.35:      # autodetection / guessing from buffered sources under small pages
                ops.append(self._op(data, fmt, abc, rng.choice(["stream", "file"]), rng.choice([3, 16, 64, 512, 0])))
            stats["kinds"]["open"] = stats["kinds"].get("open", 0) + 1
            stats["formats"][fmt] = stats["formats"].get(fmt, 0) + 1
            stats["abc"][abc] = stats["abc"].get(abc, 0) + 1
            stats["sources"][src] = stats["sources"].get(src, 0) + 1
            stats["bytes_total"] += len(data); stats["max_len"] = max(stats["max_len"], len(data))
            out.append({"name": "open%d" % len(out), "ops": ops, "sfx": sfx})
        return out

    # ------------------------------------------------------------------------------------------
    def canonical(self, line):
        if line.startswith("fault"): return "fault"
        return line

    def compare(self, ctx, case, impl_out, model_out):
        n = max(len(impl_out), len(model_out))
        for i in range(n):
            a = self.canonical(impl_out[i]) if i < len(impl_out) else "<missing>"
            b = self.canonical(model_out[i]) if i < len(model_out) else "<missing>"
            if b == "unmodelled": continue
            a = self._open_token(a.replace(" leak", "")); b = self._open_token(b)
            if a != b and self._mask(a) != self._mask(b): return (i, self._mask(a)[:3000], self._mask(b)[:3000])
        return None

    @staticmethod
    def _open_token(line):
        """`open=enoformat:msg|noafp|nomsg` == model `open=enoformat` (esl_msafile_OpenMem returns no afp on enoformat, so the
        message is unobservable there; whether a message exists is the monitor's business, not the model's)"""
        return re.sub(r"^open=(\w+):\w+", r"open=\1", line)

    @staticmethod
    def _mask(line):
        """the numeric VALUE of Stockholm weights / cut-offs is modelled (Msafile/StoNum.lean) and compared bit for bit; the one stated
        canonicalisation: every NaN pattern (payload of `nan(...)` tokens) reads `nan` / `-nan` on both sides"""
        def w(m):
            v = int(m.group(0), 16)
            if (v >> 52) & 0x7ff == 0x7ff and v & ((1 << 52) - 1): return ("-" if v >> 63 else "") + "nan"
            return m.group(0)
        def c(m):
            v = int(m.group(0), 16)
            if (v >> 23) & 0xff == 0xff and v & ((1 << 23) - 1): return ("-" if v >> 31 else "") + "nan"
            return m.group(0)
        line = re.sub(r";w=[0-9a-f,]+", lambda m: ";w=" + re.sub(r"[0-9a-f]{16}", w, m.group(0)[3:]), line)
        return re.sub(r";cut=[0-9a-f~,]+", lambda m: ";cut=" + re.sub(r"[0-9a-f]{8}", c, m.group(0)[5:]), line)

    def nontrivial(self, case, out):
        return any(" rd=ok " in l or " rd=eformat" in l for l in out)

    @staticmethod
    def _kv(op):
        return dict(x.split("=", 1) for x in op.split()[1:] if "=" in x)

    def monitor(self, ctx, case, out):
        ref = {}
        for op, l in zip(case["ops"], out):
            if l.startswith(("fault", "atexit")): continue
            kv = self._kv(op)
            what = "fmt=%s abc=%s src=%s ps=%s" % (kv.get("fmt"), kv.get("abc"), kv.get("src"), kv.get("ps"))
            toks = l.split()
            if not toks or not toks[0].startswith("open="):
                return Failure("monitor", "unparsable harness answer for %s: %s" % (what, l[:200]))
            if op.startswith("openerr"):
                what = "esl_msafile_Open by name, what=%s fmt=%s abc=%s" % (kv.get("what"), kv.get("fmt"), kv.get("abc"))
                if kv.get("what") == "gz" and kv.get("unz") is None:
                    # documented: eslFAIL (the gzip -dc pipe did not succeed), afp returned in an error state carrying the message
                    if l.replace(" leak", "") != "open=fail:msg":
                        return Failure("monitor", "a .gz file that gzip refuses must give eslFAIL with afp in an error state and a message, got '%s' (%s)" % (l[:120], what))
                    if " leak" in l: return Failure("monitor", "memory leaked on the eslFAIL path (%s)" % what, key=LEAK_KEY)
                    continue
                if kv.get("what") not in ("envfile", "gz"):
                    # documented: eslENOTFOUND, afp returned in an error state carrying the message, afp->abc NULL
                    if l.replace(" leak", "") != "open=enotfound:msg":
                        return Failure("monitor", "a name that is no regular file must give eslENOTFOUND with afp in an error state and a message, got '%s' (%s)" % (l[:120], what))
                    if " leak" in l: return Failure("monitor", "memory leaked on the eslENOTFOUND path (%s)" % what, key=LEAK_KEY)
                    continue
            o = toks[0][5:].split(":")
            if o[0] not in OK_OPEN: return Failure("monitor", "open returned undocumented status %s (%s)" % (o[0], what))
            if o[0] == "enoformat" and kv.get("fmt") != "auto": return Failure("monitor", "open returned enoformat for a declared format (%s)" % what)
            exp = case.get("expect")
            if exp is not None and (" rd=ok {n=%d;alen=%d;" % (exp["n"], exp["alen"])) not in l:
                return Failure("monitor", "valid-by-construction file (%d sequences x %d columns) is not read back as such (%s): %s" % (
                    exp["n"], exp["alen"], what, " ".join(t for t in toks if t.startswith(("open=", "rd=")))[:200]))
            if o[0] == "enoalphabet" and kv.get("abc") != "guess": return Failure("monitor", "open returned enoalphabet without alphabet guessing (%s)" % what)
            if len(o) > 1 and o[1] == "nomsg": return Failure("monitor", "open failed with %s and an empty message (%s)" % (o[0], what))
            nok = 0
            for t in toks[1:]:
                if t.startswith("exc="): return Failure("monitor", "internal exception %s raised on user input (%s)" % (t[4:], what))
                if t.startswith("rd="):
                    r = t[3:].split(":")
                    if r[0] == "more": continue
                    if r[0] not in OK_READ: return Failure("monitor", "read returned undocumented status %s (%s)" % (r[0], what), key=self._pending_key(kv, t, l))
                    if r[0] == "eformat" and (len(r) < 2 or r[1] != "msg"): return Failure("monitor", "format error without a message (%s)" % what)
                    if r[0] == "eof" and len(r) > 1: return Failure("monitor", "end of input reported with a non-blank error message (%s)" % what)
                    if r[0] == "ok": nok += 1
                elif t.startswith("chk=") and t != "chk=ok":
                    return Failure("monitor", "alignment returned with eslOK is not well formed: %s (%s)" % (t[4:], what), key=self._pending_key(kv, t, l))
                elif t.startswith("val=") and t != "val=ok":
                    return Failure("monitor", "esl_msa_Validate rejects an alignment returned with eslOK (%s)" % what, key=self._pending_key(kv, t, l))
                elif t in ("nullmsa", "nonnullmsa", "abcmismatch"):
                    return Failure("monitor", "%s (%s)" % (t, what))
                elif t == "leak":
                    return Failure("monitor", "memory leaked while reading (%s)" % what, key=LEAK_KEY)
            # the outcome must not depend on where the bytes come from (C05 tie); suffix-driven autodetection excepted
            sig = (kv.get("fmt"), kv.get("abc"), kv.get("nw"), kv.get("hex"))
            canon = re.sub(r"^open=(\w+):\w+", r"open=\1", l.replace(" leak", ""))   # OpenMem returns no afp on enoformat (message unobservable)
            if op.startswith("openerr"): continue
            if kv.get("sfx") is None or kv.get("src") == "mem":
                if sig in ref and ref[sig][0] != canon and not case.get("sfx"):
                    return Failure("monitor", "result depends on the input source: %s vs %s" % (ref[sig][1], what), detail={"a": ref[sig][0][:500], "b": canon[:500]})
                ref.setdefault(sig, (canon, what))
        return None

    def _pending_key(self, kv, tok, line=""):
        """keys of genuine defects that are recorded as known findings (each: exact class only)"""
        if tok.startswith(("chk=sscons", "chk=sacons", "chk=ppcons", "chk=rf", "chk=mm", "chk=gclen", "chk=grlen", "chk=sslen", "chk=salen", "chk=pplen", "val=fail")):
            try: data = bytes.fromhex(kv.get("hex", "").replace("-", ""))
            except ValueError: data = b""
            if any(b"\x00" in ln and ln.lstrip(b" \t").startswith(b"#=") for ln in data.split(b"\n")):
                return NUL_ANNOTATION_KEY
        if tok.startswith(("chk=norow", "val=fail")) and (" fmt=stockholm " in line + " " or " fmt=pfam " in line + " "):
            try: data = bytes.fromhex(kv.get("hex", "").replace("-", ""))
            except ValueError: data = b""
            if b"#=GS" in data: return GS_AFTER_BLOCK_KEY
        return None

    def extra_evidence(self, ctx):
        return {"modelled_formats": MODELLED, "unmodelled_formats": UNMODELLED,
                "claim": "theorems cover all ten formats, format autodetection and alphabet guessing (open path + readers); leaks, allocation failure and the gzip pipe are outside the model",
                "input_distribution": ctx.stats.get("generator", {})}


SPEC = C01()
