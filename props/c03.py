"""C03 - writing an alignment and reading it back preserves it, in every format.

Model:    lean/EaselModel/Msafile/*  (writers as functions Msa -> Bytes, readers of C01)
Theorems: lean/EaselModel/Props/C03.lean
Harness:  harness/h_msafile.c, op `rt`: build the MSA through the public API, write, read back (declared and autodetected
          format; text and digital), compare field by field, re-write and compare bytes.
"""
import re, struct
from vlib.engine import Prop, Failure
from props import msagen as G

ROUNDTRIP_PROVED = ["afa", "phylip", "phylips", "clustal", "clustallike", "psiblast", "a2m (consensus and insert columns, reader padding)", "selex (with #=RF/#=CS/#=MM/#=SS/#=SA)",
                    "pfam and stockholm multi-block (names, rows, parsed and unparsed #=GC, comments, #=GF incl. unparsed tags and cut-off flags, #=GR incl. unparsed tags under grOrderOk, #=GS WT/AC/DE/unparsed tags under gsOrderOk: stockholm_roundtrip_full)"]
ROUNDTRIP_NOT_PROVED = ["round-trip THEOREM missing (executable writer + reader models compared with the library, monitors only): stockholm/pfam multi-line #=GS values; "
                        "numeric value of weights / cut-offs", "autodetection of SELEX / PSI-BLAST output (msafile_check_selex over the whole file: executable model + monitor only); PHYLIP without a suffix = the deep check's verdict (theorem), its exception set not in closed form"]
MODELLED = ["afa", "a2m", "psiblast", "clustal", "clustallike", "phylip", "phylips", "selex", "stockholm", "pfam"]      # writer + reader models, bytes and re-read alignment compared
WRITER_ONLY = []
ALL_FORMATS = G.FORMATS
GAPS_TEXT = b"-._~"


def dbits(x): return "%016x" % struct.unpack("<Q", struct.pack("<d", x))[0]
def fbits(x): return "%08x" % struct.unpack("<I", struct.pack("<f", x))[0]
def hs(s):
    if s is None: return "~"
    b = s.encode("latin-1") if isinstance(s, str) else s
    return b.hex() if b else "-"


def aln_fields(a):
    """op-line fields (same syntax as the harness's dump) of an msagen.Aln"""
    f = ["n=%d" % a.n, "alen=%d" % a.alen, "nm=" + ",".join(hs(x) for x in a.names), "sq=" + ",".join(hs(x) for x in a.rows)]
    if a.wgt: f.append("w=" + ",".join(dbits(x) for x in a.wgt))
    for k, v in (("name", a.name), ("desc", a.adesc), ("acc", a.aacc), ("au", a.au), ("sscons", a.sscons), ("sacons", a.sacons),
                 ("ppcons", a.ppcons), ("rf", a.rf), ("mm", a.mm)):
        if v is not None: f.append(k + "=" + hs(v))
    for k, v in (("sqacc", a.acc), ("sqdesc", a.desc), ("ss", a.ss), ("sa", a.sa), ("pp", a.pp)):
        if v: f.append(k + "=" + ",".join(hs(x) for x in v))
    if a.cut: f.append("cut=" + ",".join("~" if x is None else fbits(x) for x in a.cut))
    if a.com: f.append("com=" + ",".join(hs(x) for x in a.com))
    if a.gf: f.append("gf=" + ",".join(hs(t) + ":" + hs(v) for t, v in a.gf))
    if a.gc: f.append("gc=" + ",".join(hs(t) + ":" + hs(v) for t, v in a.gc))
    if a.gs: f.append("gs=" + "/".join(hs(t) + ":" + ",".join(hs(x) for x in v) for t, v in a.gs))
    if a.gr: f.append("gr=" + "/".join(hs(t) + ":" + ",".join(hs(x) for x in v) for t, v in a.gr))
    return f


def parse_dump(d):
    """'{k=v;k=v}' -> dict"""
    out = {}
    for it in d.strip("{}").split(";"):
        k, _, v = it.partition("=")
        out[k] = v
    return out


def unhex(h):
    return None if h == "~" else (b"" if h == "-" else bytes.fromhex(h))


AUTODETECT_THEOREMS = ('stockholm_autodetect', 'pfam_autodetect_suffix', 'clustal_autodetect', 'clustallike_autodetect', 'afa_autodetect',
                      'a2m_written_detected_as_afa', 'a2m_autodetect_suffix', 'stockholm_autodetect_roundtrip_text',
                      'stockholm_autodetect_roundtrip_digital', 'clustal_autodetect_roundtrip_text', 'clustal_autodetect_roundtrip_digital',
                      'afa_autodetect_roundtrip_text', 'afa_autodetect_roundtrip_digital')


SELEX_ANN_THEOREMS = ('selex_roundtrip_ann_text', 'selex_roundtrip_ann_digital', 'selex_roundtrip_ann', 'selex_ann_write_accepted',
                      'selex_ann_write_accepted_digital', 'selex_ann_rewrite_same', 'selex_ann_rewrite_same_digital', 'selex_ann_preserves',
                      'exSlxAnn2_ann', 'exSlxAnn2_writable', 'exSlxAnn2Dna_writable', 'clustal_write_accepted_digital',
                      'psiblast_write_accepted_digital', 'psiDigResOk_of', 'psiblast_rewrite_same_digital')


A2M_INS_THEOREMS = ('a2m_roundtrip_ins_text', 'a2m_roundtrip_ins_digital', 'a2m_roundtrip_ins', 'a2m_ins_write_accepted', 'a2m_ins_write_accepted_digital',
                    'a2m_ins_rewrite_same_text', 'a2m_ins_rewrite_same_digital', 'a2m_ins_rewrite_same', 'a2m_ins_subsumes_text', 'a2m_ins_subsumes_digital',
                    'a2m_ins_subsumes', 'a2m_ins_shape', 'a2m_ins_rows_text', 'a2m_ins_rows_digital', 'a2mDigInsOk_of', 'a2mDigCellFixB_of',
                    'exA2mIns_writable', 'exA2mInsDna_writable', 'exA2mInsEmpty_writable', 'lt_three_cases')
A2M_INS_LEMMAS = ('a2mRead_write_ins', 'a2mRead_writeLines_ins', 'a2mInsTextWritable_writable', 'a2mInsDigitalWritable_writable', 'a2mWrite_projectIns',
                  'a2mWrite_projectIns_text', 'a2mWrite_projectIns_digital', 'a2mProjectIns_eq_project', 'a2mWritable_ins', 'a2mInsRow_text', 'a2mInsRow_digital')


STO_ANN_THEOREMS = ('stockholm_roundtrip_gc', 'stockholm_roundtrip_gr', 'stockholm_roundtrip_gs_partial', 'stockholm_roundtrip_full_partial',
                    'exStoGc_writable', 'exStoGr_writable', 'exStoGs_writable', 'stockholm_ann_write_accepted', 'stockholm_ann_write_accepted_digital',
                    'stockholm_ann_write_accepted_gen', 'stockholm_roundtrip_gs', 'stockholm_roundtrip_full', 'exStoWt_writable')
READ_DOMAIN_THEOREMS = ('a2mCfg_valid_of', 'a2m_read_in_domain_digital', 'a2m_read_in_domain_text', 'a2m_reformat_idempotent_text', 'a2m_reformat_stable_digital',
                        'a2m_reformat_stable_digital_of_lines', 'a2m_reformat_stable_text', 'a2m_reformat_stable_text_of_lines', 'afaCfg_valid_of',
                        'afa_read_in_domain_digital', 'afa_read_in_domain_text', 'afa_reformat_stable_digital', 'afa_reformat_stable_digital_of_lines',
                        'afa_reformat_stable_text', 'afa_reformat_stable_text_of_lines', 'clustalCfg_valid_of', 'clustal_read_in_domain_digital',
                        'clustal_read_in_domain_text', 'clustal_reformat_stable_digital', 'clustal_reformat_stable_text', 'psiblastCfg_valid_of',
                        'psiblast_read_in_domain_digital', 'psiblast_read_in_domain_text', 'psiblast_reformat_stable_digital_partial',
                        'psiblast_reformat_stable_text_partial', 'phylipCfg_valid_of', 'phylip_read_in_domain_digital', 'phylip_read_in_domain_text',
                        'phylip_reformat_keeps_names', 'phylip_reformat_stable_digital', 'phylip_reformat_stable_text', 'phylips_reformat_stable_digital',
                        'phylips_reformat_stable_text')
READ_DOMAIN_LEMMAS = ('a2mRead_nd', 'a2mRead_domain_text', 'a2mRead_domain_digital', 'a2mHdrOkB_of_lines', 'afaRead_nd', 'afaRead_domain_text', 'afaRead_domain_digital',
                      'afaHdrOkB_of_lines', 'clustalRead_nd', 'clustalRead_domain_text', 'clustalRead_domain_digital', 'psiblastRead_nd', 'psiblastRead_domain_text',
                      'psiblastRead_domain_digital', 'phylipRead_nd', 'phylipRead_domain_text', 'phylipRead_domain_digital', 'phylipRead_project_names', 'strtoi32_le',
                      'wgtTokOk_of_nonneg', 'gsOrderOk_of_hasw')


ROUND6_THEOREMS = ('weight_token_wellformed', 'weight_token_value', 'cutoff_token_wellformed', 'cutoff_token_value', 'printed_value_exact',
                   'printed_value_half_unit', 'weight_token_roundtrip', 'cutoff_token_roundtrip', 'weight_token_carried_iff', 'stockholm_seq_order_perm', 'stockholm_gr_order_perm', 'stockholm_seq_order_id', 'stockholm_gr_order_id',
                   'stockholm_roundtrip_mention_partial', 'phylip_header_recognised', 'phylip_autodetect', 'phylip_autodetect_suffix',
                   'weight_value_reread', 'weight_value_roundtrip_iff', 'cutoff_value_reread', 'weight_value_recorded', 'cutoff_value_recorded')
ROUND6_LEMMAS = ('fmtFixed_read', 'fmtFixed_eq', 'wt_line_tokens', 'digitsVal_natDec', 'natDec_length_le', 'decTok_shape', 'fmtF2_fixed', 'fmtF1_fixed',
                 'stoGsReg_cases', 'regRest_perm', 'regNew_ok', 'permList_id', 'guess_phylipWrite', 'phyHeader_first', 'memstrcontains_words',
                 'wgtTokOk_iff', 'cutoff_value_tokens', 'strtodIsMinusOne_neg', 'roundsToOne_hundredths', 'digitsVal_append', 'stoMention_project', 'stoMentionRoundTrip_of_writable', 'stoGrOrder_id_of_grOrderOk', 'regNew_range', 'filter_downclosed', 'stoProject_congr',
                 'strtodBits_fixed', 'strtodBits_fmtF2', 'strtofBits_fmtF1', 'dec64_decimals', 'fixedQ_lt', 'numUpd_wt_line', 'numCutoffs_written', 'numCutoffs_written_one')


class C03(Prop):
    id = "C03"
    lean_modules = ["EaselModel.Props.C03", "EaselModel.Msafile.WriteLemmas"]
    lean_exe = "c03_driver"
    harness = "h_msafile.c"
    theorems = ["EaselModel.Props.C03." + t for t in (
        "afa_write_deterministic", "afa_roundtrip_text", "afa_roundtrip_digital", "afa_roundtrip", "afa_write_accepted", "afa_preserves_names_rows",
        "afa_rewrite_same_text", "afa_rewrite_same_digital",
        "phylip_strtoi32_natDec", "phylips_roundtrip_text", "phylips_roundtrip_digital", "phylips_roundtrip", "phylip_roundtrip_text", "phylip_roundtrip_digital",
        "phylip_roundtrip", "phylips_write_accepted", "phylip_write_accepted", "phylip_rewrite_same_text", "phylip_rewrite_same_digital",
        "phylip_preserves_names_rows", "phylip_write_deterministic") + ('stockholm_write_deterministic', 'stoDigSymOk_of', 'pfam_roundtrip_plain_text', 'pfam_roundtrip_plain_digital', 'stockholm_roundtrip_plain_text', 'stockholm_roundtrip_plain_digital', 'stockholm_roundtrip_plain', 'stockholm_write_accepted', 'stockholm_preserves_names_rows', 'exSto_plain', 'exSto_writable', 'exStoDna_writable', 'exSto201_writable', 'stockholm_roundtrip_gc_gf', 'exStoAnn_writable', 'stockholm_roundtrip_header', 'cutoff_token_accepted', 'stockholm_rewrite_same', 'stockholm_rewrite_same_text', 'stockholm_rewrite_same_digital') + ('selex_write_deterministic', 'selexDigSymOk_of', 'selex_roundtrip_plain_text', 'selex_roundtrip_plain_digital', 'selex_roundtrip_plain', 'selex_write_accepted', 'selex_write_accepted_digital', 'selex_preserves_names_rows', 'selex_rewrite_same', 'selex_rewrite_same_digital', 'exSlx_plain', 'exSlx_writable', 'exSlxDna_writable', 'a2m_write_deterministic', 'a2mDigSymOk_of', 'a2m_roundtrip_text', 'a2m_roundtrip_digital', 'a2m_roundtrip', 'a2m_write_accepted', 'a2m_write_accepted_digital', 'a2m_rows_text', 'a2m_preserves_names_rows', 'a2m_rows_digital', 'a2m_rewrite_same_text', 'a2m_rewrite_same_digital', 'lt_two_cases', 'exA2m_writable', 'exA2mDna_writable') + ('clustal_write_deterministic', 'cluDigSymOk_of', 'clustal_roundtrip_text', 'clustal_roundtrip_digital', 'clustal_roundtrip', 'clustal_write_accepted', 'clustal_rewrite_same_text', 'clustal_rewrite_same_digital', 'clustal_preserves_names_rows', 'exClu1_writable', 'exClu_writable', 'exCluDna_writable', 'psiblast_write_deterministic', 'psiblast_roundtrip_text', 'psiDigSymOk_of', 'psiblast_roundtrip_digital', 'psiblast_roundtrip', 'psiblast_write_accepted', 'psiblast_rewrite_same_text', 'psiblast_preserves_names_rows', 'exPsi1_writable', 'exPsi_writable', 'exPsiDna_writable') + AUTODETECT_THEOREMS + SELEX_ANN_THEOREMS + A2M_INS_THEOREMS + STO_ANN_THEOREMS + READ_DOMAIN_THEOREMS + ROUND6_THEOREMS] + ["EaselModel.Msafile." + t for t in A2M_INS_LEMMAS + READ_DOMAIN_LEMMAS + ROUND6_LEMMAS] + [
        "EaselModel.Msafile.afaRead_write", "EaselModel.Msafile.stoRead_write", "EaselModel.Msafile.splitLines_join", "EaselModel.Msafile.afaDigitalWritable_writable",
        "EaselModel.Msafile.guess_stockholmWrite", "EaselModel.Msafile.guess_clustalWrite", "EaselModel.Msafile.guess_afaWrite", "EaselModel.Msafile.guess_a2mWrite", "EaselModel.Msafile.cutsetOf_eq", "EaselModel.Msafile.head_steps", "EaselModel.Msafile.fmtF1_realTok", "EaselModel.Msafile.stockholmWrite_project", "EaselModel.Msafile.phylipWriteW_unset", "EaselModel.Msafile.phylipWriteW_default"] + [
        "EaselModel.Msafile." + t for t in ("stockholmWrite_eq", "stockholmWrite_magic", "blockStarts_length", "blockStarts_lt", "stockholm_blocks", "pfam_blocks",
                                            "strtokLF_tokens", "hasDupNames_iff", "phylipWrite_header", "phylipInterleaved_empty", "phylip_blocks", "phyRowLine_first",
                                            "padRight_length", "padTrunc_length", "consensusLine_length", "textConsensusLine_chars", "digitalConsChar_range",
                                            "clustalWrite_header", "clustalBlockLines_length", "selexNameLen_ge", "psiBlockLines_length", "psiChar_text_noO",
                                            "a2mSeqLoop_width", "joinLF_getLast")]
    claimed = True
    technique = ("Lean 4 proof (writers as functions Msa -> Bytes composed with the C01 reader models) + exact differential correspondence of written bytes "
                 "and re-read alignments with the ASan/UBSan/LSan-built library + round-trip monitors on all ten formats")
    level_text = ("PARTIAL (what is missing is listed at the end). Theorems, for alignments of ANY size, text mode and digital mode with the amino/DNA/RNA alphabets (tables regenerated "
                  "from the C code each run), for ALL TEN formats: read(write m) = ok(project m) with nothing left unread, where `<Fmt>TextWritable` / `<Fmt>DigitalWritable` are explicit "
                  "lists of conditions (>=1 sequence and column; names without blank/tab/NUL/LF [Stockholm: pairwise distinct, not starting with # or //; Clustal: a row is not mistaken "
                  "for a consensus line]; residues graphic / digital rows well formed) and `project` is the documented loss of the format: aligned FASTA (names, descriptions, rows exactly), "
                  "PHYLIP sequential and interleaved (names cut to 10 characters, rows under the output rectification), Clustal and Clustal-like (names, rows), PSI-BLAST (names, rows, the RF "
                  "line the reader synthesises; O written as X; every column a consensus column or all '-'), A2M INCLUDING insert columns (names, descriptions; consensus columns upper-cased / '-', O as X; insert residues lower-cased, left-justified "
                  "in each inter-consensus run and padded with '.' / the gap code to the longest run, all-gap insert columns dropped, rf = x on consensus and . on insert columns: "
                  "`a2mProjectIns`, which equals the insert-free `a2mProject` when every column is a consensus column), SELEX with #=RF/#=CS/#=MM and per-sequence #=SS/#=SA (any number of 60-column blocks), Pfam and multi-block Stockholm with names, rows, the five parsed #=GC lines, "
                  "unparsed #=GC tags, comments, #=GF ID/AC/DE/AU, unparsed #=GF tags in order, which score cut-offs are set, per-residue #=GR SS/SA/PP and unparsed #=GR tags "
                  "(hypothesis grOrderOk: first-mention order of the tags = their order), per-sequence #=GS AC/DE and unparsed #=GS tags (hypothesis gsOrderOk: the first #=GS kind "
                  "written covers every sequence - both hypotheses are shown NECESSARY by proved counter-examples exStoGrBad / exStoGsBad = the known finding first-mention-order) "
                  "and weights (#=GS WT: every weight's %.2f token must be a real that is not read as -1.0 = unset - `wgtTokOk`, proved for every finite non-negative double; with weights the WT "
                  "lines name every sequence first, so gsOrderOk holds for ANY sparse AC/DE: gsOrderOk_of_hasw) [stockholm_roundtrip_full: names, rows, #=GC, comments, #=GF, cut-off flags, #=GR, "
                  "#=GS incl. WT]; for each: the output is a function of the alignment (`_write_deterministic`), is "
                  "accepted, the next read is EOF and the re-read alignment is well formed (`_write_accepted`), what is preserved exactly (`_preserves_names_rows`, `selex_ann_preserves`, "
                  "`a2m_rows_text/digital`), and write(read(write m)) = write m (`_rewrite_same`, text and digital; Stockholm for ANY annotation without weights/cut-offs). Autodetection of "
                  "library-written Stockholm/Pfam, Clustal, Clustal-like, aligned FASTA output selects the format for EVERY alignment, and open(auto) + read gives the same alignment "
                  "(`_autodetect`, `_autodetect_roundtrip_text/digital`); A2M output without the .a2m suffix is detected as aligned FASTA (theorem, documented behaviour). "
                  "The models (all ten writers incl. the PHYLIP name-width / residues-per-line options, all ten readers) are tied to the working tree by an exact differential run: written bytes, "
                  "re-read alignment field by field, second read, re-written bytes; each writer is called through esl_msafile_Write AND directly. ALL ten formats x text/amino/DNA/RNA are "
                  "additionally monitored on the real ASan/UBSan/LSan-built library: write -> read (declared and autodetected) -> field-by-field comparison under each format's conventions "
                  "(Stockholm/Pfam: every field incl. weight and cut-off values) -> re-write and byte comparison. "
                  "REFORMAT STABILITY (`<fmt>_read_in_domain_*`, `<fmt>_reformat_stable_*`): for EVERY input the reader accepts, the alignment it returns lies in the writer's proved domain, so "
                  "read(write(read x)) = project(read x) - for A2M and aligned FASTA under the explicit side condition that no header line holds a bare CR/LF-adjacent byte (`a2mHdrOkB`, "
                  "`afaHdrOkB`), for Clustal under the not-a-consensus-line condition (names are non-empty since fix C03-nul-in-name: `cluNamesNeB` dropped), for "
                  "PHYLIP (both variants; names come back <= 10 graphic characters, nseq/alen <= 2^31-1 proved from esl_mem_strtoi32) under `phyNamesNeB` and, text mode, "
                  "`phyRowsSymB` (the writer upper-cases), for PSI-BLAST partially (no lower-case residue); each side condition is shown necessary by a proved counter-example on the model (listed in DESIGN / the report). "
                  "ROUND 6: (a) WEIGHT / CUT-OFF TOKENS for EVERY finite binary64 / binary32 value, negative, zero and subnormal included: the token is [-]d..d.dd / [-]d..d.d with exactly "
                  "two / one fraction digits, one blank-free token esl_mem_IsReal accepts (`weight_token_wellformed`, `cutoff_token_wellformed`); read by an independent decimal parser it has the "
                  "sign bit of the value and denotes `fixedQ mant e prec` units of 10^-prec (`weight_token_value`, `cutoff_token_value`), which is the value scaled by 10^prec exactly for e >= 0 "
                  "and within HALF a unit of the last printed decimal otherwise (`printed_value_exact`, `printed_value_half_unit`); the reader's three esl_memtok calls take the written line "
                  "'#=GS <name> WT <token>' apart into exactly '#=GS', the name, 'WT' and the printed bytes (`weight_token_roundtrip`); the hypothesis wgtTokOk of stockholm_roundtrip_full holds for EVERY finite weight except those printing as '-1.00', which strtod reads as the reader's "
                  "'no weight' marker -1.0 (`weight_token_carried_iff`: strtodIsMinusOne evaluated on the printed token). (b) FIRST-MENTION ORDER as a specification: `stoSeqOrder` / "
                  "`stoGrOrder` = the order in which the Stockholm reader numbers sequences / unparsed #=GR tags of write m; permutations for EVERY alignment (`stockholm_seq_order_perm`, "
                  "`stockholm_gr_order_perm`); identity under gsOrderOk / grOrderOk (`stockholm_seq_order_id`, `stockholm_gr_order_id`), where stoMention m projects to m: the full statement "
                  "`StoMentionRoundTrip`: read(write m) = ok(stoProject(stoMention m)) holds wherever the proved round trip does (`stockholm_roundtrip_mention_partial`) and at the "
                  "witnesses of the known finding (decide); NOT proved for every alignment without the order hypotheses; the monitor demands exactly that permutation of the real library on every generated case, inside the finding's region too. "
                  "(c) PHYLIP AUTODETECTION: ' <nseq> <alen>' is recognised as a PHYLIP header for all numbers; with a .ph/.phy/.phyi/.phys suffix guess(write m) = the suffix's format for every "
                  "alignment, without one it is EXACTLY esl_msafile_phylip_CheckFileFormat's verdict on the output (`phylip_autodetect`, `phylip_autodetect_suffix`; exception set = where that "
                  "heuristic does not answer the format written, members proved by decide). (d) AFA text mode no longer accepts '>' as a residue (fix 2f545f8): `afa_reformat_stable_text` lost its "
                  "`afaNoGtB` hypothesis. "
                  "(e) NUMERIC round trip (round 6b, on C01's exact strtod model Msafile/StoNum.lean): for EVERY finite weight strtod(printf('%.2f', w)) = sign bit + the binary64 number nearest to the printed "
                  "two-decimal value (`weight_value_reread`), hence = w bit for bit exactly when w is the double nearest to the two-decimal number it prints as (`weight_value_roundtrip_iff`); cut-offs: "
                  "(float) of the double nearest to the printed one-decimal value (`cutoff_value_reread`). "
                  "NOT PROVED (monitors + executable models only): Stockholm/Pfam multi-line #=GS values and optional arrays with no entry set; A2M with separate "
                  "accessions; reformat stability for SELEX, Stockholm; the numeric values carried through the whole reader `stockholmReadV` (proved at token level only); the round trip up to the "
                  "first-mention permutation in general; autodetection of SELEX/PSI-BLAST output and a closed form of PHYLIP's ambiguous set.")
    level_note = ("Lean models of ALL ten writers (incl. stockholm_write with margins, wrapping, unique-name forcing and exact printf %.2f/%.1f; PHYLIP with ESL_MSAFILE_FMTDATA namewidth/rpl) "
                  "and ten readers are compared byte for byte / field for field with the library on every case. printf/strtod of 2-/1-decimal weights and cut-offs is trusted "
                  "(cutoff_token_accepted proves that %.1f of any finite float is a token the cut-off parser accepts). Known finding C03:stockholm:first-mention-order: the Stockholm reader numbers "
                  "sequences and #=GR tags in order of first mention (#=GS lines included), so partial per-sequence annotation changes sequence order on re-reading; the main generator keeps the "
                  "first #=GS kind total and gives the first sequence every #=GR tag, a dedicated 'mention' stream goes INTO that region and demands exactly the first-mention permutation "
                  "(python mirror of Msafile/StoFirstMention.lean) of the library's re-read alignment; a boundary GRID (16/17/32/33/64/65 sequences x 200/201/400/401 resp. 60/61/120/121 columns x "
                  "sparse annotation, PHYLIP names of width exactly 10/11) is run for every format. PHYLIP autodetection of single-sequence or single-block output is documented as ambiguous; with a "
                  "nonstandard name width autodetection is heuristic and only monitored for crash-freedom.")
    diverge_is_violation = False
    quick_budget_s = 75
    thorough_budget_s = 900
    trusted_base = ["hand model of the writers/readers tied by exact differential run (h_msafile.c op rt: bytes written and alignment read back compared)",
                    "Lean compiler/runtime for the executable driver; gcc; sanitizer runtimes",
                    "printf(\"%.2f\"/\"%.1f\") and strtod on 2-/1-decimal values are inverse (weights and cut-offs are generated with that many decimals)"]
    assumptions = ["Clustal: a line made only of blanks and the characters . : * is by definition a consensus line, so a sequence whose name AND residues in a block "
                   "consist of those characters only is not representable; the generator gives Clustal names at least one other character",
                   "autodetection of library-written PHYLIP may answer eslENOFORMAT with the documented message \"can't guess format: it's consistent w/ both phylip, phylips\" "
                   "(eslEAMBIGUOUS of esl_msafile_phylip_CheckFileFormat): the monitor accepts exactly that outcome (the harness asks esl_msafile_GuessFileFormat for its message) and no other autodetection failure",
                   "allocation never fails; fprintf never fails (eslEWRITE paths not modelled)",
                   "alignments are built through the public ESL_MSA API from the op fields; names non-empty, blank-free; annotation from the legal character sets"]
    rule = ("cases = (alignment with independently present optional fields, output format, text/amino/DNA/RNA); non-trivial = written, read back with eslOK and "
            "compared field by field; distinct by full output trace")

    # ------------------------------------------------------------------------------------------
    avoid_known = True        # keep the generator out of the known-finding regions (the differential runner switches this off)

    def annotate_all(self, rng, a):
        """every optional field at once"""
        L, n = a.alen, a.n
        col = lambda chars: "".join(rng.choice(chars) for _ in range(L))
        text = lambda k=20: "".join(rng.choice("abcdefghijklmnopqrstuvwxyz ABCXYZ0123456789.,;:()[]-_") for _ in range(rng.randrange(1, k))).strip() or "x"
        a.name = a.name or G.rand_name(rng); a.adesc = a.adesc or text(40); a.aacc = a.aacc or "PF%05d" % rng.randrange(100000); a.au = a.au or text(20)
        a.wgt = a.wgt or [float("%.2f" % (rng.random() * 10 + 0.01)) for _ in range(n)]
        a.acc = ["ACC%d" % i for i in range(n)]; a.desc = [text(30) for _ in range(n)]
        a.sscons = a.sscons or col("<>.-_,:"); a.sacons = a.sacons or col("0123456789"); a.ppcons = a.ppcons or col("0123456789*.")
        a.rf = a.rf or col("xX.~"); a.mm = a.mm or col("m.")
        a.ss = [col("HEC.<>") for _ in range(n)]; a.sa = [col("0123456789") for _ in range(n)]; a.pp = [col("0123456789*.") for _ in range(n)]
        if not a.gf: a.gf = [("CC", text(40)), ("DR", text(40)), ("CC", text(10))]
        if not a.gc: a.gc = [("CSX", col("abcxyz.*")), ("Long_tag_thing", col("abcxyz.*"))]
        if not a.gs: a.gs = [("OS", [text(15) for _ in range(n)]), ("LO", [text(15) for _ in range(n)])]
        if not a.gr: a.gr = [("csa", [col("abc.*") for _ in range(n)]), ("TM", [col("abc.*") for _ in range(n)])]
        if not a.com: a.com = [text(50), text(50)]
        a.cut = [float("%.1f" % (rng.random() * 50)) for _ in range(6)]

    def gen_aln(self, rng, fmt, abc, quick):
        kind = {"text": rng.choice(["amino", "dna", "rna"]), "amino": "amino", "dna": "dna", "rna": "rna"}[abc]
        big = rng.random() < (0.08 if quick else 0.3)
        nseq = None if big else rng.choice([1, 2, 3, 5, 8, 10, 11, 17])
        alen = None if big else rng.choice([1, 2, 10, 59, 60, 61, 120, 121, 199, 200, 201, 400])
        if abc == "text":
            gaps = {"a2m": "-.", "psiblast": "-", "phylip": "-", "phylips": "-", "clustal": "-", "clustallike": "-"}.get(fmt, "-._~" if fmt in ("stockholm", "pfam") else "-.")
            lower = fmt in ("stockholm", "pfam", "afa", "selex", "a2m", "psiblast")
        else:
            gaps, lower = "-", False
        maxname = 10 if fmt in ("phylip", "phylips") and rng.random() < 0.7 else 14
        if rng.random() < 0.1: maxname = rng.choice([11, 25, 40, 90])        # names longer than any fixed field
        a = G.rand_aln(rng, kind, nseq, alen, gapchars=gaps, lower=lower, maxname=maxname,
                       namechars="abcdefghijklmnopqrstuvwxyzABCDEFGHIJKLMNOPQRSTUVWXYZ0123456789_|.:+[]()" + ("/-" if rng.random() < 0.5 else ""))
        if a.n >= 2 and rng.random() < 0.4:
            # prefix-related / near-identical names in every relative order (s1 / s10 / s1.1 / S1 / s): name lookups must be exact
            base = G.rand_name(rng, 6, "abcdefghijklmnopqrstuvwxyzABCDEFGHIJKLMNOPQRSTUVWXYZ0123456789_")
            fam = [base, base + "0", base + "1", base + ".1", base + "x", base + base[-1], base.swapcase(), base + "_2", base + "10", base + "01"]
            if len(base) > 1: fam += [base[:-1], base[:1]]
            fam = [x for x in dict.fromkeys(fam) if x and x[0] not in "#/>-."]
            if fmt in ("phylip", "phylips"): fam = [x for x in fam if len(x) <= 10]
            rng.shuffle(fam)
            k = min(len(fam), a.n, rng.choice([2, 3, 4, a.n]))
            pos = rng.sample(range(a.n), k)
            for pp, nm in zip(pos, fam[:k]):
                if nm not in a.names: a.names[pp] = nm
        if fmt in ("clustal", "clustallike"):
            # a Clustal line made only of the characters " .:*" IS a consensus line (that is how the format marks it): a sequence whose name
            # consists of '.', ':' , '*' only and whose block of residues does too cannot be represented; keep such names out
            a.names = [nm if any(ch not in ".:*" for ch in nm) else "s" + nm for nm in a.names]
        if abc != "text" and rng.random() < 0.3:
            # missing-data '~' and nonresidue '*' symbols in digital alignments
            rows = []
            for r in a.rows:
                r = list(r)
                for _ in range(rng.randrange(0, 3)):
                    r[rng.randrange(len(r))] = rng.choice("~*-")
                rows.append("".join(r))
            a.rows = rows
        if rng.random() < 0.75: G.annotate(rng, a, full=True)
        if rng.random() < 0.06: self.annotate_all(rng, a)
        if a.cut and rng.random() < 0.3:
            k = rng.choice([1, 3, 5]); a.cut[k] = None          # a single threshold (Rfam style): "#=GF GA x"
        if a.gs and fmt in ("stockholm", "pfam") and rng.random() < 0.3:
            # multiply annotated #=GS tag: stored as "v1\nv2", written as two lines
            t, v = a.gs[-1]; a.gs[-1] = (t, [(x + "\n" + "second %d" % i) if x and rng.random() < 0.5 else x for i, x in enumerate(v)])
        if a.wgt and a.n >= 3 and rng.random() < 0.5:
            # with weights present the sequence order is pinned; thin the other per-sequence fields to non-contiguous subsets
            for f in ("acc", "desc"):
                v = getattr(a, f)
                if v: setattr(a, f, [x if (i % 2 == 0 or rng.random() < 0.3) else None for i, x in enumerate(v)] if any(x for i, x in enumerate(v) if i % 2 == 0) else v)
            a.gs = [(t, [x if (i % 2 == 1 or rng.random() < 0.3) else None for i, x in enumerate(v)]) for t, v in a.gs]
            a.gs = [(t, v) for t, v in a.gs if any(v)]
        # same finding, #=GR tags: the tag order of the re-read alignment is the order of first mention; give the first sequence every tag
        a.gr = [(t, [v[0] or "".join(rng.choice("abc.*") for _ in range(a.alen))] + v[1:]) for t, v in a.gr]
        if not a.wgt:
            # known finding C03:stockholm:partial-gs-reorders-sequences - the reader numbers sequences in order of first mention,
            # #=GS lines included; keep the first #=GS kind the writer emits (AC, DE, then other tags) total
            first = "acc" if a.acc else ("desc" if a.desc else None)
            if first:
                v = getattr(a, first); setattr(a, first, [x if x else "filler%d" % i for i, x in enumerate(v)])
            elif a.gs:
                t, v = a.gs[0]; a.gs[0] = (t, [x if x else "filler%d" % i for i, x in enumerate(v)])
        a.dup = False
        if a.n >= 2 and rng.random() < 0.08:
            # duplicate sequence names: Stockholm/Pfam force unique names by a "<seq#>|" prefix (the monitor skips its name comparison)
            i, j = rng.sample(range(a.n), 2); a.names[j] = a.names[i]; a.dup = True
            if a.n >= 11 and rng.random() < 0.5: a.names = [a.names[i]] * a.n
        return a

    GROW_NSEQ = [15, 16, 17, 18, 31, 32, 33, 34, 63, 64, 65]
    GROW_ALEN = [1, 59, 60, 61, 120, 121, 199, 200, 201, 202, 399, 400, 401, 601]

    def gen_growth(self, rng, fmt, abc, quick, n=None, L=None, avoid=True):
        """alignments that cross the allocation-growth boundaries of the readers: sequence counts around the doubling of the growable MSA and of the
        per-sequence parse data (16/17, 32/33, 64/65), widths around the writers' wrap (60 / 200 columns) and several blocks, tag / comment / #=GF
        counts around their allocation steps, lines per Stockholm block around 16/32/64 - combined with EVERY annotation kind, each independently
        present and SPARSE (on the first sequences only, the last only, a random subset): parsed and unparsed #=GS, #=GR, #=GC, weights."""
        kind = {"text": rng.choice(["amino", "dna", "rna"]), "amino": "amino", "dna": "dna", "rna": "rna"}[abc]
        forced = n is not None
        if n is None: n = rng.choice(self.GROW_NSEQ[:8] if quick and rng.random() < 0.8 else self.GROW_NSEQ)
        sto = fmt in ("stockholm", "pfam")
        if L is None: L = rng.choice([201, 202, 400, 401] if (sto and rng.random() < 0.5) else self.GROW_ALEN)
        if n > 34 and L > 401: L = 401
        gaps = "-" if (abc != "text" or fmt in ("psiblast", "phylip", "phylips", "clustal", "clustallike")) else ("-._~" if sto else "-.")
        a = G.rand_aln(rng, kind, n, L, gapchars=gaps, lower=(abc == "text" and fmt in ("stockholm", "pfam", "afa", "selex", "a2m", "psiblast")),
                       maxname=10 if fmt in ("phylip", "phylips") else 12,
                       namechars="abcdefghijklmnopqrstuvwxyzABCDEFGHIJKLMNOPQRSTUVWXYZ0123456789_|.:+[]()")
        if forced and fmt in ("phylip", "phylips"):
            # names that fill the 10-column name field exactly, and names one longer (cut by the writer); distinct in their first 10 characters
            nc = "abcdefghijklmnopqrstuvwxyzABCDEFGHIJKLMNOPQRSTUVWXYZ0123456789_"
            seen = set()
            for i in range(n):
                if rng.random() < 0.6:
                    while True:
                        b = "".join(rng.choice(nc) for _ in range(10))
                        if b not in seen: break
                    seen.add(b); a.names[i] = b + (rng.choice(nc) if rng.random() < 0.5 else "")
        if fmt in ("clustal", "clustallike"): a.names = [nm if any(ch not in ".:*" for ch in nm) else "s" + nm for nm in a.names]
        col = lambda chars: "".join(rng.choice(chars) for _ in range(L))
        text = lambda k=12: "".join(rng.choice("abcdefghijklmnopqrstuvwxyz ABC0123456789.,;:()-_") for _ in range(rng.randrange(1, k))).strip() or "x"

        def sparse(make):
            """one value per sequence, present on a subset chosen by one of several shapes; never entirely absent"""
            shape = rng.choice(["all", "first", "early", "late", "last", "half", "few", "most"])
            on = {"all": lambda i: True, "first": lambda i: i == 0, "early": lambda i: i < rng.choice([1, 8, 16]), "late": lambda i: i >= rng.choice([16, 17, n - 1]),
                  "last": lambda i: i == n - 1, "half": lambda i: rng.random() < 0.5, "few": lambda i: rng.random() < 0.1, "most": lambda i: rng.random() < 0.9}[shape]
            v = [make() if on(i) else None for i in range(n)]
            if not any(x is not None for x in v): v[rng.choice([0, n - 1, rng.randrange(n)])] = make()
            return v
        p = rng.choice([0.15, 0.4, 0.7])
        if sto:
            if rng.random() < p: a.wgt = [float("%.2f" % (rng.random() * 10 + 0.01)) for _ in range(n)]
            if rng.random() < p: a.acc = sparse(lambda: "ACC%d" % rng.randrange(1000))
            if rng.random() < p: a.desc = sparse(lambda: text(20))
            ntag = lambda: rng.choice([0, 0, 1, 1, 2, 3, rng.choice([15, 16, 17])] if rng.random() < 0.9 else [33])
            for k in range(ntag() if rng.random() < p else 0): a.gs.append(("GS%d" % k if k else "OS", sparse(lambda: text(10))))
            if rng.random() < p: a.ss = sparse(lambda: col("HEC.<>"))
            if rng.random() < p: a.sa = sparse(lambda: col("0123456789"))
            if rng.random() < p: a.pp = sparse(lambda: col("0123456789*."))
            for k in range(ntag() if rng.random() < max(p, 0.5) else 0): a.gr.append((("T%d" % k) if k else rng.choice(["csa", "AS", "LI", "IN"]), sparse(lambda: col("abc.*"))))
            for k in range(ntag() if rng.random() < p else 0): a.gc.append(("C%d" % k if k else "CSX", col("abcxyz.*")))
            if rng.random() < p: a.sscons = col("<>.-_,:")
            if rng.random() < p: a.rf = col("xX.~")
            if rng.random() < 0.2: a.ppcons = col("0123456789*.")
            if rng.random() < 0.2: a.sacons = col("0123456789")
            if rng.random() < 0.2: a.mm = col("m.")
            for k in range(rng.choice([0, 0, 1, 15, 16, 17, 33]) if rng.random() < p else 0): a.gf.append((rng.choice(["CC", "DR", "RN"]), text(20)))
            for k in range(rng.choice([0, 0, 1, 15, 16, 17, 33]) if rng.random() < p else 0): a.com.append(text(30))
            if rng.random() < 0.3: a.name = G.rand_name(rng)
            if rng.random() < 0.2: a.aacc = "PF%05d" % rng.randrange(100000)
            # known finding C03:stockholm:first-mention-order: sequences are numbered in order of first mention (#=GS lines included), #=GR tags likewise.
            # Stay out of exactly that region: without weights the first #=GS kind written (AC, DE, then the other tags) is made total; the #=GR tags are put
            # in the order of the first sequence that carries them (what the reader's numbering gives anyway).
            # (avoid=False: the "mention" stream goes INTO that region on purpose; there the monitor demands exactly the first-mention permutation)
            if not a.wgt and avoid:
                if a.acc: a.acc = [x if x else "filler%d" % i for i, x in enumerate(a.acc)]
                elif a.desc: a.desc = [x if x else "filler%d" % i for i, x in enumerate(a.desc)]
                elif a.gs: t, v = a.gs[0]; a.gs[0] = (t, [x if x else "filler%d" % i for i, x in enumerate(v)])
            firstseq = lambda v: next(i for i, x in enumerate(v) if x is not None)
            if avoid: a.gr.sort(key=lambda tv: firstseq(tv[1]))
        elif fmt == "selex":
            if rng.random() < p: a.ss = sparse(lambda: col("HEC.<>"))
            if rng.random() < p: a.sa = sparse(lambda: col("0123456789"))
            if rng.random() < p: a.sscons = col("<>.-_,:")
            if rng.random() < p: a.rf = col("xX.~")
            if rng.random() < 0.2: a.mm = col("m.")
        elif fmt in ("afa", "a2m"):
            if rng.random() < p: a.desc = sparse(lambda: text(20))
            if fmt == "a2m" and rng.random() < p: a.rf = col("xxx.")
        a.dup = False
        return a

    def generated(self, ctx):
        from translate import msafile_tables
        return {"EaselModel/Msafile/AbcTables.lean": msafile_tables.generate(ctx.src, ctx.work)}

    def corpus(self, ctx):
        c = []
        for fmt in ALL_FORMATS:
            for abc in ("text", "dna"):
                c.append({"name": "tiny-%s-%s" % (fmt, abc),
                          "ops": ["rt fmt=%s abc=%s n=2 alen=3 nm=6161,62 sq=414347,412d47" % (fmt, abc)]})
        c.append({"name": "known-stockholm-partial-gs", "report_mention": True,          # the monitor itself keys the failure (only when the re-read IS the first-mention permutation)
                  "ops": ["rt fmt=stockholm abc=text n=2 alen=3 nm=61,62 sq=414347,412d47 sqdesc=~,666f6f"]})
        c.append({"name": "known-stockholm-gr-tag-order", "report_mention": True,
                  "ops": ["rt fmt=stockholm abc=text n=3 alen=3 nm=61,62,63 sq=414347,412d47,414141 sqdesc=~,666f6f,~ gr=7441:~,~,616263/7442:~,616263,~ gs=4f53:~,~,7171"]})
        c.append({"name": "psiblast-O", "ops": ["rt fmt=psiblast abc=amino n=2 alen=4 nm=61,62 sq=4143444f,41434445",
                                                  "rt fmt=psiblast abc=text n=2 alen=4 nm=61,62 sq=4143444f,41436f45"]})
        c.append({"name": "stockholm-uniq-gs", "dup": True,       # weights pin the sequence order (see known finding first-mention-order)
                  "ops": ["rt fmt=stockholm abc=text n=3 alen=3 nm=61,61,62 sq=414347,412d47,414141 w=3ff8000000000000,4000000000000000,3fe0000000000000 gs=4452:~,~,7171"]})
        c.append({"name": "a2m-lowercase-o", "ops": ["rt fmt=a2m abc=text n=2 alen=4 nm=61,62 sq=41436f45,41434445",
                                                       "rt fmt=a2m abc=text n=2 alen=4 nm=61,62 sq=412d4745,416f4745"]})
        # reformat path (read -> write -> read), confirmed defects of the library (known findings; each reproduced with esl-reformat)
        rf = lambda name, key, fmt, data, abc="text": c.append({"name": name, "known_key": key, "ops": ["reformat fmt=%s abc=%s hex=%s" % (fmt, abc, data.hex())]})
        # repaired (C03-afa-gt-residue: text-mode '>' is eslDSQ_ILLEGAL): plain regression cases - rejected on input, and a '>' that would not even start an output line
        c.append({"name": "regress-reformat-afa-gt", "ops": ["reformat fmt=afa abc=text hex=%s" % (b">a\n" + b"A" * 60 + b">\n").hex(),
                                                             "reformat fmt=afa abc=text hex=%s" % b">a\nAC>GT\n>b\nACGGT\n".hex(),
                                                             "reformat fmt=afa abc=dna hex=%s" % (b">a\n" + b"A" * 60 + b">\n").hex()]})
        rf("known-reformat-afa-cr", "C03:reformat:header-trailing-cr", "afa", b">a x\r\r\nAC\n")
        rf("known-reformat-a2m-cr", "C03:reformat:header-trailing-cr", "a2m", b">a x\r\r\nAC\n")
        # repaired (C03-nul-in-name: a NUL byte in the name field of a Clustal / PSI-BLAST alignment line is eslEFORMAT): plain regression cases
        c.append({"name": "regress-reformat-nul-name", "ops": ["reformat fmt=%s abc=%s hex=%s" % (f, a, d.hex()) for f, a, d in (
            ("clustal", "text", b"CLUSTAL W alignment\n\n\x00x ACGT\n   ****\n"), ("psiblast", "text", b"\x00x ACGT\n"),
            ("clustallike", "text", b"MUSCLE alignment\n\na\x00b ACGT\n    ****\n"), ("clustal", "dna", b"CLUSTAL W alignment\n\na\x00 ACGT\n   ****\n"),
            ("psiblast", "amino", b"a\x00b ACGT\nc ACGT\n"), ("clustal", "text", b"CLUSTAL W alignment\n\nab ACGT\n   ****\n\na\x00 ACGT\n   ****\n"))]})
        rf("known-reformat-clustal-consensus-lookalike", "C03:reformat:clustal-consensus-lookalike", "clustal",
           b"CLUSTAL W alignment\n\nx  " + b"A" * 61 + b"\n*  " + b"A" * 60 + b"*\n   " + b"*" * 61 + b"\n")
        return c

    def cases(self, ctx):
        rng = ctx.rng
        quick = ctx.tier == "quick"
        n = 2400 if quick else 30000
        out = []
        stats = ctx.stats.setdefault("generator", {"formats": {}, "abc": {}, "nseq_max": 0, "alen_max": 0, "multi_block": 0, "annotated": 0})
        for i in range(n):
            fmt = ALL_FORMATS[i % len(ALL_FORMATS)]
            abc = rng.choice(["text", "text", "amino", "dna", "rna"])
            a = self.gen_aln(rng, fmt, abc, quick)
            stats["formats"][fmt] = stats["formats"].get(fmt, 0) + 1
            stats["abc"][abc] = stats["abc"].get(abc, 0) + 1
            stats["nseq_max"] = max(stats["nseq_max"], a.n); stats["alen_max"] = max(stats["alen_max"], a.alen)
            if a.alen > 200: stats["multi_block"] += 1
            if a.gf or a.gc or a.gs or a.gr or a.com: stats["annotated"] += 1
            out.append({"name": "rt%d-%s-%s" % (i, fmt, abc), "dup": a.dup, "ops": ["rt fmt=%s abc=%s " % (fmt, abc) + " ".join(aln_fields(a))]})
        # allocation-growth boundaries of the readers x every annotation kind, sparse (gen_growth); Stockholm (several blocks) every second case
        ng = 360 if quick else 6000
        for i in range(ng):
            fmt = "stockholm" if i % 2 == 0 else ALL_FORMATS[(i // 2) % len(ALL_FORMATS)]
            abc = rng.choice(["text", "text", "amino", "dna", "rna"])
            a = self.gen_growth(rng, fmt, abc, quick)
            stats["growth"] = stats.get("growth", 0) + 1
            stats["nseq_max"] = max(stats["nseq_max"], a.n); stats["alen_max"] = max(stats["alen_max"], a.alen)
            if a.alen > 200: stats["multi_block"] += 1
            out.append({"name": "grow%d-%s-%s" % (i, fmt, abc), "dup": False, "ops": ["rt fmt=%s abc=%s " % (fmt, abc) + " ".join(aln_fields(a))]})
        # the allocation-size coincidences the property's quantifier names, as a GRID (not left to chance): 16/17/32/33/64/65 sequences x the wrap boundary of the
        # format (Stockholm 200/201/400/401 columns; the 60-column formats 60/61/120/121; Pfam one block) x sparse annotation; PHYLIP names of width exactly 10 / 11
        BN = [16, 17, 32, 33, 64, 65]
        k = 0
        for fmt in ALL_FORMATS:
            LS = [200, 201, 400, 401] if fmt in ("stockholm", "pfam") else [60, 61, 120, 121]
            for bi, bn in enumerate(BN if not quick else [BN[(k + j) % 6] for j in range(3)]):
                Ls = LS if not quick else [LS[(k + bi) % 4]]
                for L in Ls:
                    abc = ("text", "amino", "dna", "rna", "text")[(k + bi) % 5]
                    a = self.gen_growth(rng, fmt, abc, quick, n=bn, L=L)
                    stats["boundary_grid"] = stats.get("boundary_grid", 0) + 1
                    stats["nseq_max"] = max(stats["nseq_max"], a.n); stats["alen_max"] = max(stats["alen_max"], a.alen)
                    if a.alen > 200: stats["multi_block"] += 1
                    out.append({"name": "bnd-%s-%s-n%d-L%d" % (fmt, abc, bn, L), "dup": False, "ops": ["rt fmt=%s abc=%s " % (fmt, abc) + " ".join(aln_fields(a))]})
            k += 1
        # INSIDE the region of the known finding first-mention-order (sparse #=GS kinds without weights, #=GR tags first used by a later sequence):
        # the re-read alignment must be EXACTLY the first-mention permutation of the original (`first_mention`, the python mirror of the Lean
        # specification stoSeqOrder / stoGrOrder); anything else is an unkeyed violation, the permutation itself is reported under the known key
        for i in range(120 if quick else 2500):
            fmt = ("stockholm", "pfam")[i % 2]
            abc = rng.choice(["text", "text", "amino", "dna", "rna"])
            a = self.gen_growth(rng, fmt, abc, quick, n=rng.choice([2, 3, 4, 5, 8, 16, 17, 18, 33]), L=rng.choice([1, 7, 60, 200, 201, 401]), avoid=False)
            stats["mention"] = stats.get("mention", 0) + 1
            out.append({"name": "mention%d-%s-%s" % (i, fmt, abc), "dup": False, "ops": ["rt fmt=%s abc=%s " % (fmt, abc) + " ".join(aln_fields(a))]})
        # zero columns (esl-reformat --nogap on an all-gap alignment hands the writers alen = 0): outside the round-trip property, but no writer may
        # fail or raise (fc170bb: text-mode Clustal zero-malloc); bytes and the reader's verdict are compared with the model, every format, text + digital
        for i in range(40 if quick else 400):
            fmt = ALL_FORMATS[i % len(ALL_FORMATS)]
            abc = ("text", "dna", "amino", "text")[(i // len(ALL_FORMATS)) % 4]
            a = G.rand_aln(rng, "dna" if abc != "amino" else "amino", rng.choice([1, 2, 3, 17]), 0, maxname=10,
                           namechars="abcdefghijklmnopqrstuvwxyzABCDEFGHIJKLMNOPQRSTUVWXYZ0123456789_")
            if fmt in ("afa", "a2m") and rng.random() < 0.5: a.desc = ["d%d" % k for k in range(a.n)]
            stats["alen0"] = stats.get("alen0", 0) + 1
            out.append({"name": "alen0-%d-%s-%s" % (i, fmt, abc), "dup": False,
                        "ops": ["rt fmt=%s abc=%s %s" % (fmt, abc, "via=direct " if i % 3 == 0 else "") + " ".join(aln_fields(a))]})
        # the reformat path (what esl-reformat does): a VALID file of the format (independent python writers, every wrap width, CRLF, annotation)
        # is read, the alignment the READER returned is written, and the output is read back: accepted, and the same alignment
        # (theorems <fmt>_reformat_stable_*; Stockholm/Pfam are left to the rt op: first-mention-order finding)
        REFMT = [f for f in ALL_FORMATS if f not in ("stockholm", "pfam")]
        for i in range(320 if quick else 5000):
            fmt = REFMT[i % len(REFMT)]
            data, a = G.valid_file(rng, fmt, small=rng.random() < 0.8)
            if fmt in ("clustal", "clustallike") and any(all(ch in ".:*" for ch in nm) for nm in a.names): continue
            kindabc = {"amino": "amino", "dna": "dna", "rna": "rna"}
            abc = rng.choice(["text", "text", "guesskind"])
            if abc == "guesskind":
                rows = "".join(a.rows).upper()
                abc = "rna" if "U" in rows and set(rows) <= set("ACGURYMKSWHBVDN-._~*") else ("dna" if set(rows) <= set("ACGTRYMKSWHBVDN-._~*") else "amino")
            stats["reformat"] = stats.get("reformat", 0) + 1
            out.append({"name": "reformat%d-%s-%s" % (i, fmt, abc), "dup": False, "ops": ["reformat fmt=%s abc=%s hex=%s" % (fmt, abc, data.hex() or "-")]})
        # every writer op called DIRECTLY (esl_msafile_<fmt>_Write instead of the esl_msafile_Write dispatch), all ten formats x text/digital,
        # and the PHYLIP writers' format options (ESL_MSAFILE_FMTDATA namewidth / rpl; 0 = unset) with the reader opened at the same name width
        nd = 400 if quick else 6000
        for i in range(nd):
            fmt = ALL_FORMATS[i % len(ALL_FORMATS)] if i % 3 else ("phylip", "phylips")[(i // 3) % 2]
            abc = rng.choice(["text", "text", "amino", "dna", "rna"])
            a = self.gen_aln(rng, fmt, abc, quick)
            opt = ""
            if fmt in ("phylip", "phylips") and rng.random() < 0.8:
                nw = rng.choice([0, 1, 2, 5, 9, 10, 11, 14, 15, 25, 40, 100]); rpl = rng.choice([0, 1, 2, 7, 59, 60, 61, 199, 200, 1000])
                if rng.random() < 0.3: nw = max(len(x) for x in a.names) + rng.choice([-1, 0, 1])      # the longest name fills the field exactly / is cut by one
                if rng.random() < 0.2: rpl = max(a.alen + rng.choice([-1, 0, 1]), 0)                    # one line exactly / one residue over
                opt = "nw=%d rpl=%d " % (max(nw, 0), rpl)
            stats["direct"] = stats.get("direct", 0) + 1
            if opt: stats["phylip_options"] = stats.get("phylip_options", 0) + 1
            out.append({"name": "direct%d-%s-%s" % (i, fmt, abc), "dup": a.dup, "ops": ["rt fmt=%s abc=%s via=direct %s" % (fmt, abc, opt) + " ".join(aln_fields(a))]})
        return out

    # ------------------------------------------------------------------------------------------
    def canonical(self, line):
        if line.startswith("fault"): return "fault"
        return line.replace(" leak", "")

    SKIP = ("cmp=", "aopen=", "awhy=", "afmt=", "anw=", "ard=", "achk=", "asame=", "gopen=", "gabc=")

    @staticmethod
    def _mask(line):
        """the numeric VALUE of Stockholm weights / cut-offs is not in the reader model (which are set is): mask the payload on both sides"""
        line = re.sub(r";w=[0-9a-f,]+", lambda m: ";w=" + re.sub(r"[0-9a-f]{16}", "v", m.group(0)[3:]), line)
        return re.sub(r";cut=[0-9a-f~,]+", lambda m: ";cut=" + re.sub(r"[0-9a-f]{8}", "v", m.group(0)[5:]), line)

    def compare(self, ctx, case, impl_out, model_out):
        n = max(len(impl_out), len(model_out))
        for i in range(n):
            a = self.canonical(impl_out[i]) if i < len(impl_out) else "<missing>"
            b = self.canonical(model_out[i]) if i < len(model_out) else "<missing>"
            if b == "unmodelled": continue
            ta = [t for t in a.split() if not t.startswith(self.SKIP)]
            tb = b.split()
            # the model answers the part it specifies (a prefix of the harness's tokens): build, m, wr, bytes, open, rd + dump + chk + val, rd2, rw
            ta = ta[:len(tb)]
            for x, y in zip(ta, tb):
                if x == y: continue
                if x.startswith(("{", "m={")) and self._mask(x) == self._mask(y): continue     # re-read dump: weight / cut-off payload masked
                return (i, " ".join(ta)[:3000], " ".join(tb)[:3000])
            if len(ta) != len(tb): return (i, " ".join(ta)[:3000], " ".join(tb)[:3000])
        return None

    def nontrivial(self, case, out):
        return any(" rd=ok " in l and (" rw=same" in l or " same=yes" in l) for l in out)

    @staticmethod
    def _kv(op):
        return dict(x.split("=", 1) for x in op.split()[1:] if "=" in x)

    @staticmethod
    def _residues(row_hex, digital, k=None):
        """row as list of (is_gap, symbol) ; text symbols upper-cased"""
        b = unhex(row_hex) or b""
        return b

    def monitor(self, ctx, case, out):
        for op, l in zip(case["ops"], out):
            if l.startswith(("fault", "atexit")): continue
            kv = self._kv(op)
            fmt, abc = kv["fmt"], kv.get("abc", "text")
            what = "fmt=%s abc=%s" % (fmt, abc)
            if op.startswith("reformat "):
                toks = l.split()
                t = dict(x.split("=", 1) for x in toks if "=" in x and not x.startswith("{"))
                if " leak" in l: return Failure("monitor", "memory leaked on the reformat path (%s)" % what)
                if any(x.startswith("exc=") for x in toks): return Failure("monitor", "internal exception on the reformat path (%s)" % what)
                if t.get("open") != "ok" or not t.get("rd", "").startswith("ok"): continue          # the input is not an alignment of this format: not a case
                if t.get("chk") != "ok" or t.get("val") != "ok": return Failure("monitor", "alignment read is not well formed chk=%s val=%s (%s)" % (t.get("chk"), t.get("val"), what))
                if t.get("wr") != "ok": return Failure("monitor", "writing an alignment the reader returned gave %s (%s)" % (t.get("wr"), what))
                if t.get("open2") != "ok" or not t.get("rd2", "").startswith("ok"):
                    return Failure("monitor", "reformat: the library rejects its own output for an alignment its reader returned: open2=%s rd2=%s (%s)" % (t.get("open2"), t.get("rd2"), what))
                if t.get("same") != "yes": return Failure("monitor", "reformat: read(write(read x)) differs from read x (%s)" % what)
                continue
            opts = kv.get("via") == "direct" and ("nw" in kv or "rpl" in kv) and fmt in ("phylip", "phylips")
            nw = (int(kv.get("nw", 0)) or 10) if opts else 10            # PHYLIP writer options (0 = unset)
            rpl = (int(kv.get("rpl", 0)) or 60) if opts else 60
            if kv.get("via"): what += " via=%s" % kv["via"] + (" nw=%d rpl=%d" % (nw, rpl) if opts else "")
            toks = l.split()
            t = dict(x.split("=", 1) for x in toks if "=" in x and not x.startswith(("{", "m={")))
            dumps = [x[2:] if x.startswith("m={") else x for x in toks if x.startswith(("{", "m={"))]
            if " leak" in l: return Failure("monitor", "memory leaked in write/read round trip (%s)" % what)
            if any(x.startswith("exc=") for x in toks): return Failure("monitor", "internal exception in write/read round trip (%s): %s" % (what, [x for x in toks if x.startswith("exc=")]))
            if t.get("build") != "ok": continue          # the generated text is not digitizable in this alphabet: not a case
            if t.get("wr") != "ok": return Failure("monitor", "write returned %s (%s)" % (t.get("wr"), what))
            if kv.get("alen") == "0": continue        # zero columns: outside the property's quantifier (1..700 columns); the writers must not fail, bytes are compared with the model
            if t.get("open") != "ok": return Failure("monitor", "library-written output not opened: %s (%s)" % (t.get("open"), what))
            if not t.get("rd", "").startswith("ok"): return Failure("monitor", "library-written output rejected by the reader: rd=%s (%s)" % (t.get("rd"), what))
            if t.get("chk") != "ok" or t.get("val") != "ok": return Failure("monitor", "re-read alignment not well formed chk=%s val=%s (%s)" % (t.get("chk"), t.get("val"), what))
            if t.get("rd2") != "eof": return Failure("monitor", "second read after the written alignment returned %s (%s)" % (t.get("rd2"), what))
            uniq_forced = bool(case.get("dup")) and fmt in ("stockholm", "pfam")       # names get a "<seq#>|" prefix: rewritten bytes and names differ by design
            # Stockholm/Pfam: the reader numbers sequences and unparsed #=GR tags in order of first mention; where that is not the order of the
            # alignment (known finding first-mention-order) the specification is "re-read = that permutation of the original", checked below
            mention = None
            if fmt in ("stockholm", "pfam") and not uniq_forced and dumps:
                m0 = parse_dump(dumps[0]); mp = self.first_mention(m0)
                if mp != m0:
                    mention = mp
                    g = ctx.stats.setdefault("generator", {}); g["first_mention_region"] = g.get("first_mention_region", 0) + 1
            if t.get("rw") != "same" and not uniq_forced and mention is None: return Failure("monitor", "re-writing the re-read alignment gives different bytes (%s)" % what)
            # esl_msafile_GuessFileFormat documents one way to fail on well-formed PHYLIP: "can't guess format: it's consistent w/ both phylip,
            # phylips" (eslEAMBIGUOUS from esl_msafile_phylip_CheckFileFormat). The harness asks the guesser for its message (awhy=).
            ambiguous_phylip = fmt in ("phylip", "phylips") and t.get("awhy") == "ambiguous"
            auto_ok = t.get("aopen") == "ok"
            # PHYLIP written with a nonstandard name width: the autodetector has to INFER the width from the columns (documented as heuristic:
            # names that look like residues shift it), so there only "no crash, documented status" is demanded of autodetection
            odd_width = opts and nw != 10
            if odd_width:
                if t.get("aopen") not in ("ok", "enoformat"): return Failure("monitor", "autodetection of PHYLIP output with name width %d returned %s (%s)" % (nw, t.get("aopen"), what))
                if auto_ok and t.get("ard") not in ("ok", "eformat"): return Failure("monitor", "autodetected read of PHYLIP output with name width %d returned %s (%s)" % (nw, t.get("ard"), what))
                if auto_ok and t.get("ard") == "ok" and t.get("achk") != "ok": return Failure("monitor", "autodetected read gave a malformed alignment: %s (%s)" % (t.get("achk"), what))
            if not odd_width and not auto_ok and not (t.get("aopen") == "enoformat" and ambiguous_phylip):
                return Failure("monitor", "autodetection failed on library-written output: %s (%s)" % (t.get("aopen"), what))
            exp_auto = {"pfam": "stockholm", "a2m": "afa", "psiblast": "selex", "clustallike": "clustallike"}.get(fmt, fmt)
            # one sequence or one block: the interleaved and the sequential output are the same bytes, either answer is right
            same_layout = fmt in ("phylip", "phylips") and (kv.get("n") == "1" or int(kv.get("alen", "0")) <= rpl)
            if odd_width: auto_ok = False                                   # nothing further is demanded of autodetection there
            if auto_ok and t.get("afmt") != exp_auto and not (same_layout and t.get("afmt") in ("phylip", "phylips")):
                return Failure("monitor", "autodetection chose %s for %s output (%s)" % (t.get("afmt"), fmt, what))
            if len(dumps) < 2: return Failure("monitor", "harness answer incomplete (%s)" % what)
            m, m2 = parse_dump(dumps[0]), parse_dump(dumps[1])
            if uniq_forced:
                nm = m["nm"].split(","); w = len(str(len(nm)))
                exp = [(("%0*d|" % (w, i)).encode() + (unhex(x) or b"")).hex() for i, x in enumerate(nm)]
                if exp != m2["nm"].split(","): return Failure("monitor", "unique-name forcing: unexpected names %s (%s)" % (m2["nm"][:80], what))
                m = dict(m, nm=m2["nm"]); m2 = dict(m2)
                # the warning comment line is read back as a comment
                warn = b"WARNING: seq names have been made unique by adding a prefix of \"<seq#>|\"".hex()
                com2 = [x for x in m2.get("com", "").split(",") if x and x != warn]
                if com2: m2["com"] = ",".join(com2)
                else: m2.pop("com", None)
            if mention is not None:
                f = self.compare_msa(fmt, abc, mention, m2, nw)
                if f: return Failure("monitor", "re-read alignment is not the first-mention permutation of the original: %s (%s)" % (f, what),
                                     detail={"orig": dumps[0][:1500], "reread": dumps[1][:1500]})
            else:
                f = self.compare_msa(fmt, abc, m, m2, nw)
                if f: return Failure("monitor", "%s (%s)" % (f, what), detail={"orig": dumps[0][:1500], "reread": dumps[1][:1500]})
            if auto_ok and t.get("afmt") == fmt and t.get("ard") == "ok" and t.get("asame") != "yes":
                return Failure("monitor", "autodetected read differs from declared read (%s)" % what)
            if auto_ok and t.get("ard") != "ok" and fmt != "a2m":
                return Failure("monitor", "autodetected read of library-written output returned %s (%s)" % (t.get("ard"), what))
            if mention is not None and case.get("report_mention"):
                # everything else held; what remains is the known finding itself: order changed, so write(read(write m)) != write m.  Reported by the
                # corpus witnesses only (the engine stops after 50 failures); the generated "mention" cases demand the exact permutation silently
                return Failure("monitor", "Stockholm re-read in first-mention order (exactly the specified permutation) (%s)" % what, key="C03:stockholm:first-mention-order")
        return None

    @staticmethod
    def first_mention(m):
        """python mirror of the Lean specification (Msafile/StoFirstMention.lean: stoSeqOrder, stoGrOrder, stoMention): the alignment the
        Stockholm reader returns for the written form of dump `m` - sequences in order of first mention (#=GS WT, AC, DE, unparsed #=GS tags
        kind by kind, then the rows), unparsed #=GR tags in order of first mention in the first block"""
        n = int(m["n"])
        sp = lambda v: v.split(",")
        gs = [(x.split(":", 1)[0], sp(x.split(":", 1)[1])) for x in m["gs"].split("/")] if m.get("gs") else []
        gr = [(x.split(":", 1)[0], sp(x.split(":", 1)[1])) for x in m["gr"].split("/")] if m.get("gr") else []
        kinds = []
        if m.get("hasw") == "1": kinds.append(["x"] * n)
        for k in ("sqacc", "sqdesc"):
            if m.get(k): kinds.append(sp(m[k]))
        kinds += [v for _, v in gs]
        order = []
        for v in kinds:
            order += [i for i in range(n) if i < len(v) and v[i] != "~"]
        order = list(dict.fromkeys(order + list(range(n))))
        torder = []
        for i in range(n):
            torder += [k for k, (_, v) in enumerate(gr) if i < len(v) and v[i] != "~"]
        torder = list(dict.fromkeys(torder + list(range(len(gr)))))
        pm = lambda v: ",".join(sp(v)[o] for o in order)
        out = dict(m)
        for k in ("nm", "sq", "w", "sqacc", "sqdesc", "ss", "sa", "pp"):
            if m.get(k) and len(sp(m[k])) == n: out[k] = pm(m[k])
        if gs: out["gs"] = "/".join(t + ":" + ",".join(v[o] for o in order) for t, v in gs)
        if gr: out["gr"] = "/".join(gr[k][0] + ":" + ",".join(gr[k][1][o] for o in order) for k in torder)
        return out

    def compare_msa(self, fmt, abc, m, m2, namewidth=10):
        if m["n"] != m2["n"]: return "number of sequences changed %s -> %s" % (m["n"], m2["n"])
        names, names2 = m["nm"].split(","), m2["nm"].split(",")
        if fmt in ("phylip", "phylips"):
            names = [(unhex(x) or b"")[:namewidth].hex() or "-" for x in names]
        if names != names2: return "sequence names changed: %s -> %s" % (names[:3], names2[:3])
        if m["dig"] != m2["dig"]: return "digital flag changed"
        if fmt in ("stockholm", "pfam"):
            keys = set(m) | set(m2)
            for k in sorted(keys):
                if m.get(k) != m2.get(k): return "field %s not preserved by %s: %s -> %s" % (k, fmt, str(m.get(k))[:80], str(m2.get(k))[:80])
            return None
        rows, rows2 = [unhex(x) or b"" for x in m["sq"].split(",")], [unhex(x) or b"" for x in m2["sq"].split(",")]
        digital = m["dig"] == "1"
        K = {"amino": 20, "dna": 4, "rna": 4}.get(abc, 0)

        def isgap(c):
            return (c == K or c >= {"amino": 27, "dna": 16, "rna": 16}[abc]) if digital else (c in GAPS_TEXT or c == 0x20)
        for i, (r, r2) in enumerate(zip(rows, rows2)):
            if fmt == "a2m":
                # dotless A2M keeps consensus columns and residues; all-gap insert columns vanish; case follows the consensus annotation;
                # 'O' (and its digital code) is written as the unknown residue, missing data as a gap
                d1 = [c for c in r if not isgap(c)]; d2 = [c for c in r2 if not isgap(c)]
                if digital:
                    unk = {"amino": 26, "dna": 15, "rna": 15}[abc]
                    d1 = [unk if (abc == "amino" and c == 24) else c for c in d1]
                else:
                    d1 = [ord("X") if chr(c) in "Oo" else c for c in bytes(d1).upper()]; d2 = list(bytes(d2).upper())
                if list(d1) != list(d2): return "residues of sequence %d changed in a2m round trip" % i
                continue
            if m["alen"] != m2["alen"]: return "alignment length changed %s -> %s" % (m["alen"], m2["alen"])
            if len(r) != len(r2): return "row %d length changed" % i
            for j, (c, c2) in enumerate(zip(r, r2)):
                if fmt == "psiblast":        # documented: pyrrolysine cannot be represented, written as the unknown residue
                    if digital and abc == "amino" and c == 24: c = 26
                    if not digital and chr(c) in "Oo": c = ord("X")
                if isgap(c) != isgap(c2): return "gap pattern of row %d changed at column %d" % (i, j)
                if not isgap(c):
                    if digital:
                        if c != c2: return "residue code of row %d column %d changed %d -> %d" % (i, j, c, c2)
                    elif bytes([c]).upper() != bytes([c2]).upper(): return "residue of row %d column %d changed %r -> %r" % (i, j, chr(c), chr(c2))
                    elif fmt in ("afa", "selex", "clustal", "clustallike") and c != c2:
                        return "case of residue row %d column %d changed %r -> %r in a case-preserving format" % (i, j, chr(c), chr(c2))
        return None

    def extra_evidence(self, ctx):
        return {"modelled_formats": MODELLED,
                "roundtrip_theorem_formats": ROUNDTRIP_PROVED,
                "unmodelled_formats": ROUNDTRIP_NOT_PROVED,
                "writer_ops_compared": ["esl_msafile_Write (dispatch, 10 formats)", "esl_msafile_stockholm_Write (STOCKHOLM, PFAM)", "esl_msafile_a2m_Write", "esl_msafile_psiblast_Write",
                                        "esl_msafile_selex_Write", "esl_msafile_afa_Write", "esl_msafile_clustal_Write (CLUSTAL, CLUSTALLIKE)",
                                        "esl_msafile_phylip_Write (PHYLIP, PHYLIPS; opt_fmtd NULL and with namewidth/rpl set)"],
                "claim": "partial: read(write m) = ok(project m), acceptance, determinism and write(read(write m)) = write m are proved for the roundtrip_theorem_formats; every format's "
                         "writer and reader model is tied to the library byte for byte on each run; what is listed under unmodelled_formats is covered by the executable models + monitors "
                         "on the real library (support, not proof)",
                "input_distribution": ctx.stats.get("generator", {})}


SPEC = C03()
