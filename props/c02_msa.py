"""C02 - alignment files read sequentially as sequences: generators (the alignment file generators themselves are the C01/C03 module
props/msagen.py, imported only) and the record monitor for files whose rows are known.

Every case is compared exactly with the model (lean/EaselModel/Sqio/MsaSeq.lean on the C01 reader models): ten declared alignment
formats + autodetection (file-name suffix and content), text / amino / DNA / RNA, Read / ReadInfo / ReadSequence / ReadBlock / forward
windows on anything; forward windows to eslEOD followed by reverse-strand windows to eslEOD on files whose rows are known."""
from props import msagen as G
from props import sqio_common as S

hx = S.hx
MSA_FORMATS = ["stockholm", "pfam", "a2m", "psiblast", "selex", "afa", "clustal", "clustallike", "phylip", "phylips"]
SUFFIX = {"stockholm": ["sto", "sth", "stk", "dat"], "pfam": ["pfam", "sto", "dat"], "a2m": ["a2m", "dat"], "psiblast": ["pb", "dat"],
          "selex": ["slx", "selex", "dat"], "afa": ["afa", "afasta", "dat", "fa"], "clustal": ["aln", "clu", "dat"],
          "clustallike": ["aln", "dat"], "phylip": ["ph", "phy", "phyi", "dat"], "phylips": ["phys", "dat"]}
GAPS = "-_.~"


def dealigned(row):
    return "".join(c for c in row if c not in GAPS)


def same_residues(got, row, fmt):
    """case-insensitive; the A2M writer of props/msagen.py writes the residue O (SAM's free-insertion-module symbol) as x"""
    row = row.upper()
    if fmt == "a2m":
        row = row.replace("O", "X")
    return got.decode("latin-1").upper() == row


def reading_order(fmt, data, a):
    """(name, dealigned row) in the order the reader creates the sequences: Stockholm / Pfam number them by first mention, and a
    #=GS line may mention a sequence before its first alignment line"""
    by = dict(zip(a.names, (dealigned(x) for x in a.rows)))
    if fmt not in ("stockholm", "pfam"):
        return [(nm, by[nm]) for nm in a.names]
    seen = []
    for ln in data.decode("latin-1").replace("\r", "").split("\n"):
        w = ln.split()
        if not w or w[0] == "//":
            continue
        nm = w[1] if (w[0] == "#=GS" and len(w) > 1) else (None if w[0].startswith("#") else w[0])
        if nm is not None and nm in by and nm not in seen:
            seen.append(nm)
    return [(nm, by[nm]) for nm in seen] + [(nm, by[nm]) for nm in a.names if nm not in seen]


def window_schedule(rng, rows, abc, reverse_ok):
    """forward windows over every row to eslEOD, then (nucleic rows) reverse-strand windows to eslEOD, then esl_sq_Reuse"""
    ops = ["reuse"]
    for seq in rows:
        L = len(seq)
        W = max(rng.choice([1, 2, 3, 7, 10, 60, 5000, max(1, L), max(1, L - 1), L + 1]), L // 40 + 1)
        C = rng.choice([0, 0, 1, 2, 10, W, W + 3])
        ops += ["readwin C=%d W=%d" % (C, W)] * ((L + W - 1) // W + 1)
        if reverse_ok and rng.random() < 0.7:
            W2 = max(rng.choice([1, 2, 3, 7, 10, 60, 5000, max(1, L), max(1, L - 1), L + 1]), L // 40 + 1)
            C2 = rng.choice([0, 0, 1, 2, 10, W2, W2 + 3])
            ops += ["readwin C=%d W=%d" % (C2, -W2)] * ((L + W2 - 1) // W2 + 1)
        ops.append("reuse")
    ops.append("readwin C=0 W=10")          # eslEOF (or the first row of a further alignment)
    return ops


def msa_case(rng, idx, pool):
    """one case: a file (valid / mutated valid / mutated test file / raw bytes) x 1-3 sessions"""
    fmt = MSA_FORMATS[idx % len(MSA_FORMATS)]
    r = rng.random()
    rows = None
    if r < 0.45:
        data, a = G.valid_file(rng, fmt, small=rng.random() < 0.8)
        named = reading_order(fmt, data, a)
        rows = [x for _, x in named]
        nucleic = all(c in "ACGTUNRYMKSWHBVDacgtunrymkswhbvd" for s in rows for c in s)
        kind = "valid"
    elif r < 0.75:
        data, a = G.valid_file(rng, fmt, small=True)
        data = G.mutate(rng, data, None)
        kind = "mut"
    elif r < 0.9 and pool:
        d, b = rng.choice(pool)
        own = [f for f in MSA_FORMATS if G.FMT_DIR[f] == d]
        fmt = rng.choice(own) if own else fmt
        data = b if rng.random() < 0.4 else G.mutate(rng, b, None)
        kind = "file"
    else:
        data = G.raw_bytes(rng)
        kind = "raw"
    data = data[:65536]
    ext = rng.choice(SUFFIX[fmt]) if rng.random() < 0.7 else rng.choice(["dat", "sto", "afa", "gb", "fa", "txt", "slx", "phy"])
    ops = ["file ext=%s hex=%s" % (ext, hx(data))]
    sched = []
    for s_ in range(rng.choice([1, 2, 3])):
        sel = fmt if rng.random() < 0.6 else rng.choice(["unknown", "unknown", rng.choice(MSA_FORMATS)])
        abc = rng.choice(["text", "text", "amino", "dna", "rna"])
        ops.append("open fmt=%s abc=%s B=%d" % (sel, abc, rng.choice([4096, 4096, 64, 7, 1])))
        if abc == "text" and rng.random() < 0.25:
            ops.append("guessabc")
        call = rng.choice(["read", "readseq", "readinfo", "mixed", "block", "fwdwin", "winrev" if rows is not None else "fwdwin"])
        n = (len(rows) if rows is not None else rng.choice([2, 5, 9])) + 1
        if call == "winrev" and sel == fmt and kind == "valid":
            # reverse complement needs a nucleic row: text mode with nucleic letters only, or a DNA/RNA alphabet (with symbols the
            # alphabet lacks the open/read fails first, which ends the session)
            # (amino alphabet: no complement; a row with other symbols: some formats map them to gaps in digital mode - PHYLIP 'O' -,
            #  so the residue count the schedule relies on would be off)
            reverse_ok = nucleic and abc in ("text", "dna", "rna")
            ops += window_schedule(rng, rows, abc, reverse_ok)
            sched.append(s_)
        elif call in ("fwdwin", "winrev"):
            ops.append("reuse")
            for _ in range(rng.choice([3, 8, 20])):
                ops.append("readwin C=%d W=%d" % (rng.choice([0, 1, 5, 50]), rng.choice([1, 2, 7, 60, 5000])))
                if rng.random() < 0.15:
                    ops.append("reuse")
        elif call == "block":
            ops += ["readblock list=%d maxres=-1 maxseq=%d init=%d long=0 ctx=0" % (rng.choice([1, 2, 8, 17]), rng.choice([-1, 1, 3]), rng.choice([0, 1]))] * min(n, 12)
        elif call == "mixed":
            ops += [rng.choice(["read", "readinfo", "readseq"]) for _ in range(min(n, 40))]
        else:
            ops += [call] * min(n, 40)
        ops.append("close")
    case = {"name": "msa-%s-%s%d" % (kind, fmt, idx), "ops": ops, "sticky": 1}
    if kind == "valid":
        case["meta"] = {"msarows": rows, "msanames": [nm for nm, _ in named], "msafmt": fmt, "msasched": sched}
    return case


def monitor(case, out):
    """valid generated file, opened under its own format: every row comes back dealigned (whole-record calls), forward windows
    reassemble it, reverse windows reassemble its reverse complement (checked through S.monitor_windows)"""
    from vlib.engine import Failure
    meta = case.get("meta") or {}
    rows = meta.get("msarows")
    if rows is None:
        return None
    sess = S.sessions(case, out)
    opens = [i for i, (op, l) in enumerate(zip(case["ops"], out)) if op.startswith("open ")]
    okopens = [k for k, i in enumerate(opens) if out[i].startswith("ok")]
    for (data, od, items), sno in zip(sess, okopens):
        if od.get("fmt") != meta.get("msafmt"):
            continue
        abc = od.get("abc", "text")
        idx = 0
        for op, d, line in items:
            if op == "guessabc":
                continue
            if op not in ("read", "readseq", "readinfo"):
                break
            st = line.split()[0] if line else ""
            if st in ("eformat", "dead"):
                break                      # a symbol the digital alphabet lacks: the reader's answer is compared with the model's
            if st == "eof":
                if idx < len(rows):
                    return Failure("monitor", "alignment file read as sequences ended after %d of %d sequences" % (idx, len(rows)))
                continue
            r = S.rec(line)
            if st != "ok" or r is None:
                return Failure("monitor", "%s on a valid %s file returned %r" % (op, meta.get("msafmt"), line[:80]))
            if idx < len(rows) and op != "readinfo" and abc == "text" and not same_residues(r["seq"], rows[idx], meta.get("msafmt")):
                return Failure("monitor", "sequence %d read from the %s alignment is %r, the dealigned row is %r" % (
                    idx, meta.get("msafmt"), r["seq"][:40], rows[idx][:40]))
            if idx < len(rows) and op == "readinfo" and r["L"] != len(rows[idx]) and abc == "text":
                return Failure("monitor", "ReadInfo of sequence %d reports L=%d, the dealigned row has %d residues" % (idx, r["L"], len(rows[idx])))
            idx += 1
        if sno in meta.get("msasched", []) and any(op == "readwin" for op, _, _ in items):
            err, recon = S.monitor_windows(items, abc)
            if err:
                return Failure("monitor", "windows over a %s file read as sequences (abc=%s): %s" % (meta.get("msafmt"), abc, err))
            for i, (name, seq, L) in enumerate(recon):
                # (digital mode: a format may map a symbol the alphabet lacks to a gap - PHYLIP reads 'O' as a deletion -: compared in text mode only)
                if i < len(rows) and abc == "text" and (L != len(rows[i]) or not same_residues(seq, rows[i], meta.get("msafmt"))):
                    return Failure("monitor", "windows over sequence %d of the %s alignment do not reassemble the dealigned row (L=%d, row has %d)" % (
                        i, meta.get("msafmt"), L, len(rows[i])))
    return None
