"""C17 — genetic codes and ORFs. Model: lean/EaselModel/Gencode/*, generated tables: Generated/Gencode.lean
(translate/tables_gencode.py), theorems: Props/C17.lean, harness: h_gencode.c"""
from vlib.engine import Prop, Failure
from translate import tables_gencode, tables_alphabet

# ---- pinned NCBI tables (TCAG order), independent of the code: id -> (AAs, Starts) -------------------------------
PINNED = {
    1: ("FFLLSSSSYY**CC*WLLLLPPPPHHQQRRRRIIIMTTTTNNKKSSRRVVVVAAAADDEEGGGG", "---M---------------M---------------M----------------------------"),
    2: ("FFLLSSSSYY**CCWWLLLLPPPPHHQQRRRRIIMMTTTTNNKKSS**VVVVAAAADDEEGGGG", "--------------------------------MMMM---------------M------------"),
    3: ("FFLLSSSSYY**CCWWTTTTPPPPHHQQRRRRIIMMTTTTNNKKSSRRVVVVAAAADDEEGGGG", "----------------------------------MM----------------------------"),
    4: ("FFLLSSSSYY**CCWWLLLLPPPPHHQQRRRRIIIMTTTTNNKKSSRRVVVVAAAADDEEGGGG", "--MM---------------M------------MMMM---------------M------------"),
    5: ("FFLLSSSSYY**CCWWLLLLPPPPHHQQRRRRIIMMTTTTNNKKSSSSVVVVAAAADDEEGGGG", "---M----------------------------MMMM---------------M------------"),
    6: ("FFLLSSSSYYQQCC*WLLLLPPPPHHQQRRRRIIIMTTTTNNKKSSRRVVVVAAAADDEEGGGG", "-----------------------------------M----------------------------"),
    9: ("FFLLSSSSYY**CCWWLLLLPPPPHHQQRRRRIIIMTTTTNNNKSSSSVVVVAAAADDEEGGGG", "-----------------------------------M---------------M------------"),
    10: ("FFLLSSSSYY**CCCWLLLLPPPPHHQQRRRRIIIMTTTTNNKKSSRRVVVVAAAADDEEGGGG", "-----------------------------------M----------------------------"),
    11: ("FFLLSSSSYY**CC*WLLLLPPPPHHQQRRRRIIIMTTTTNNKKSSRRVVVVAAAADDEEGGGG", "---M---------------M------------MMMM---------------M------------"),
    12: ("FFLLSSSSYY**CC*WLLLSPPPPHHQQRRRRIIIMTTTTNNKKSSRRVVVVAAAADDEEGGGG", "-------------------M---------------M----------------------------"),
    13: ("FFLLSSSSYY**CCWWLLLLPPPPHHQQRRRRIIMMTTTTNNKKSSGGVVVVAAAADDEEGGGG", "---M------------------------------MM---------------M------------"),
    14: ("FFLLSSSSYYY*CCWWLLLLPPPPHHQQRRRRIIIMTTTTNNNKSSSSVVVVAAAADDEEGGGG", "-----------------------------------M----------------------------"),
    16: ("FFLLSSSSYY*LCC*WLLLLPPPPHHQQRRRRIIIMTTTTNNKKSSRRVVVVAAAADDEEGGGG", "-----------------------------------M----------------------------"),
    21: ("FFLLSSSSYY**CCWWLLLLPPPPHHQQRRRRIIMMTTTTNNNKSSSSVVVVAAAADDEEGGGG", "-----------------------------------M---------------M------------"),
    22: ("FFLLSS*SYY*LCC*WLLLLPPPPHHQQRRRRIIIMTTTTNNKKSSRRVVVVAAAADDEEGGGG", "-----------------------------------M----------------------------"),
    23: ("FF*LSSSSYY**CC*WLLLLPPPPHHQQRRRRIIIMTTTTNNKKSSRRVVVVAAAADDEEGGGG", "--------------------------------M--M---------------M------------"),
    24: ("FFLLSSSSYY**CCWWLLLLPPPPHHQQRRRRIIIMTTTTNNKKSSSKVVVVAAAADDEEGGGG", "---M---------------M---------------M---------------M------------"),
    25: ("FFLLSSSSYY**CCGWLLLLPPPPHHQQRRRRIIIMTTTTNNKKSSRRVVVVAAAADDEEGGGG", "---M-------------------------------M---------------M------------"),
}
IDS = sorted(PINNED)
AMINO = "ACDEFGHIKLMNPQRSTVWY-BJZOUX*~"
STOP, UNK, MET = AMINO.index("*"), AMINO.index("X"), AMINO.index("M")
NUC = "ACGT-RYMKSWHBVDN*~"
IUPAC = {"A": "A", "C": "C", "G": "G", "T": "T", "R": "AG", "Y": "CT", "M": "AC", "K": "GT", "S": "CG", "W": "AT", "H": "ACT",
         "B": "CGT", "V": "ACG", "D": "AGT", "N": "ACGT", "-": "", "*": "", "~": ""}
SETS = [["ACGT".index(c) for c in IUPAC[s]] for s in NUC]
COMP = {"A": "T", "C": "G", "G": "C", "T": "A", "-": "-", "R": "Y", "Y": "R", "M": "K", "K": "M", "S": "S", "W": "W", "H": "D",
        "B": "V", "V": "B", "D": "H", "N": "N", "*": "*", "~": "~"}
COMPX = [NUC.index(COMP[s]) for s in NUC]


_PCACHE = {}


def pinned_arrays(tid, init):
    """(basic[64], isinit[64]) in the code's codon order 16x+4y+z over ACGT (cached: one object per (table, setting))"""
    if (tid, init) not in _PCACHE:
        _PCACHE[(tid, init)] = _pinned_arrays(tid, init)
    return _PCACHE[(tid, init)]


def _pinned_arrays(tid, init):
    aas, starts = PINNED[tid]
    basic, ini = [None] * 64, [None] * 64
    for p in range(64):
        b = "TCAG"[p // 16], "TCAG"[(p % 16) // 4], "TCAG"[p % 4]
        c = 16 * "ACGT".index(b[0]) + 4 * "ACGT".index(b[1]) + "ACGT".index(b[2])
        basic[c] = AMINO.index(aas[p]); ini[c] = 1 if starts[p] == "M" else 0
    if init == "any": ini = [1 if b < 20 else 0 for b in basic]
    elif init == "aug": ini = [1 if c == 16 * 0 + 4 * 3 + 2 else 0 for c in range(64)]
    return basic, ini


_TCACHE = {}


def translate(basic, ini, a, b, c):
    """spec: (aa as unsigned byte, initiator flag) of a possibly degenerate codon (memoised per table)"""
    key = (id(basic), id(ini))
    tab = _TCACHE.get(key)
    if tab is None or tab[0] is not basic or tab[1] is not ini:
        tab = (basic, ini, {})
        _TCACHE[key] = tab
    r = tab[2].get((a, b, c))
    if r is None:
        r = _translate(basic, ini, a, b, c)
        tab[2][(a, b, c)] = r
    return r


def _translate(basic, ini, a, b, c):
    cods = [16 * x + 4 * y + z for x in SETS[a] for y in SETS[b] for z in SETS[c]]
    if not cods: return 255, 0
    aas = {basic[k] for k in cods}
    return (aas.pop() if len(aas) == 1 else UNK), (1 if all(ini[k] for k in cods) else 0)


def spec_orfs(codes, basic, ini, using, minlen, strands):
    """declarative ORF finder; returns list of (frame, start, end, aa list) in emission order"""
    L = len(codes)
    out = []
    if L < 3: return out
    for strand in strands:
        seq = codes if strand == "w" else [COMPX[x] for x in reversed(codes)]
        found = []
        for f in range(3):
            in_orf, cur, start = False, [], 0
            p = f + 1
            last = None
            while p + 2 <= L:
                aa, it = translate(basic, ini, seq[p - 1], seq[p], seq[p + 1])
                if not in_orf and it:
                    in_orf, start = True, p
                    if using: aa = MET
                if aa == STOP:
                    if in_orf and len(cur) >= minlen: found.append((p - 1, f, start, cur))
                    in_orf, cur = False, []
                if in_orf: cur.append(aa)
                last = p
                p += 3
            if in_orf and len(cur) >= minlen: found.append((last + 2, f, start, cur))
        found.sort(key=lambda t: t[0])
        for end, f, start, aa in found:
            if strand == "w": out.append((f + 1, start, end, aa))
            else: out.append((f + 4, L + 1 - start, L + 1 - end, aa))
    return out


import re
_WS = rb"[ \t\n\r\f]"          # the class \s of esl_regexp.c (no vertical tab)
_LINE = {k: re.compile(rb"^" + _WS + rb"*" + pat + _WS + rb"*=" + _WS + rb"*([^ \t\n\r\f]+)" + _WS + rb"*\Z") for k, pat in
         (("aas", rb"[Aa][Aa]s"), ("starts", rb"[Ss]tarts"), ("b1", rb"[Bb]ase1"), ("b2", rb"[Bb]ase2"), ("b3", rb"[Bb]ase3"))}


def py_read(buf):
    """independent reading of an NCBI genetic-code text: (basic[64], init[64]) or None if malformed"""
    lines = [l.split(b"\0")[0] for l in buf.split(b"\n")]            # every line is handled as a C string
    lines = [l for l in lines if l.strip(b" \t\r\f\v") and not l.lstrip(b" \t\r\f\v").startswith(b"#")]
    if len(lines) < 5: return None
    toks, start = [], None
    for key, l in zip(("aas", "starts", "b1", "b2", "b3"), lines):
        m = _LINE[key].match(l)
        if not m or len(m.group(1)) != 64: return None
        if start is None: start = m.start(1)
        elif m.start(1) != start: return None
        toks.append(m.group(1).decode("latin1"))
    aas, starts, b1, b2, b3 = toks
    basic, ini, seen = [None] * 64, [None] * 64, [0] * 64
    for p in range(64):
        a = aas[p].upper()
        if a not in "ACDEFGHIKLMNPQRSTVWY*": return None
        cod = 0
        for b in (b1[p], b2[p], b3[p]):
            b = b.upper().replace("U", "T")
            if b not in "ACGT": return None
            cod = cod * 4 + "ACGT".index(b)
        if starts[p] not in "-mM": return None
        basic[cod] = AMINO.index(a); ini[cod] = 0 if starts[p] == "-" else 1; seen[cod] += 1
    if min(seen) == 0 or STOP not in basic or any(x not in basic for x in range(20)): return None
    return basic, ini


def unhex(s):
    return b"" if s == "-" else bytes.fromhex(s)


def kv(line):
    return dict(w.split("=", 1) for w in line.split() if "=" in w)


class C17(Prop):
    id = "C17"
    lean_modules = ["EaselModel.Props.C17"]
    lean_exe = "c17_driver"
    harness = "h_gencode.c"
    theorems = ["EaselModel.Props.C17." + t for t in (
        "tables_pinned", "table_ids", "no_initiator_stop", "read_write_roundtrip", "rna_objects_ok", "expand_is_iupac", "translation_spec", "translation_shared",
        "initiator_spec", "initiator_settings", "window_split_invariant", "orf_stream_eq_spec", "orf_frame_declarative", "orf_numbering_and_order", "builtin_tables_ok",
        "standard_code_by_amino_acid", "tables_differ_as_documented", "read_never_faults", "read_never_faults_hyps", "write_never_faults", "write_never_faults_hyps", "read_ok_is_code", "read_ok_is_complete", "decode_digicodon_bounds", "decode_digicodon_inverse",
        "compare_spec", "process_orf_spec", "translation_out_of_alphabet_faults", "short_windows",
        "reverse_strand_windows", "windowed_eq_full_length", "workstate_options", "six_frame_translation", "complement_closed",
        "short_sequences_ignored", "strand_leaves_idle", "translation_total", "initiator_total", "empty_rows", "alt_code_table_spec",
        "file_numbering", "windowed_file_eq_full_length",
        "set_after_any_history", "set_resets_builtin", "policy_setters_overwrite", "printed_record_spec")]
    claimed = True
    technique = ("Lean 4 proof: built-in tables regenerated from the tree = hand-pinned NCBI tables by `decide`; general theorems (any table, any "
                 "degeneracy matrix) that the triple loop computes the shared amino acid / all-initiators; ORF machine modelled and tied by exact "
                 "differential run over all triplets x tables x settings and random/adversarial DNA with arbitrary window splits")
    level_text = ("Table theorems by `decide` over the whole regenerated esl_transl_tables[]: every row written in NCBI (TCAG) order equals the "
                  "hand-pinned NCBI AAs/Starts strings (18 tables x 128 entries), ids unique, no initiator is a stop under any of the 3 initiator "
                  "settings; the nucleotide degeneracy rows are the IUPAC sets. General theorems (ANY table, ANY degeneracy matrix, every triplet "
                  "of codes; proof by induction on the loop, not enumeration): the triple loop with early return of esl_gencode_GetTranslation = "
                  "'amino acid shared by all canonical codons the triplet stands for, else X'; IsInitiator = 'all of them initiators'; the two "
                  "initiator policies; for every DNA sequence and EVERY split into windows the Process* machine ends in the same state as with a "
                  "single window; and (orf_stream_eq_spec) the streaming machine with its rolling codon / degeneracy countdown / three interleaved "
                  "frames emits, for each frame of either strand, exactly the ORF records of a sequential one-frame ORF finder over that frame's "
                  "codons (coordinates, residues, first residue M when initiators are required, minimum length, flush at the strand end). "
                  "The machine model is tied to the tree by exact differential run and monitored against an independent ORF finder in Python. "
                  "Independently of the pinned strings, tables_differ_as_documented / standard_code_by_amino_acid (`decide` over the regenerated tables) state every table as its "
                  "documented differences from the standard code + its initiation codons, and the standard code by amino acid. read_never_faults: the column loop of esl_gencode_Read "
                  "with every array access checked never leaves its arrays, for any bytes; read_ok_is_code + read_ok_is_complete: whatever bytes Read accepts, all 64 codons were assigned exactly once by the file to an amino acid or the stop, all 20 amino acids and a stop occur, flags 0/1, id -1; write_never_faults: Write on any well-formed code object reads inside its arrays; translation_out_of_alphabet_faults; decode_digicodon_bounds (every int), decode_digicodon_inverse, compare_spec, process_orf_spec "
                  "(emission iff length >= minlen, numbering, frame label, coordinates). Round 6: translation_total / initiator_total (GetTranslation / IsInitiator on ANY three byte codes: exactly which "
                  "inputs read outside degen[], -1 / FALSE behind a gap, * or ~); alt_code_table_spec (DumpAltCodeTable as a function of the table array); whole sequences and files through the two main "
                  "loops of esl-translate.c under every WorkstateCreate option combination: six_frame_translation (frames 1-3 = finder over the sequence, 4-6 = finder over the reverse complement from L "
                  "downwards, nothing under --crick / --watson, no other label), reverse_strand_windows (the windows ReadWindow cuts from the 3' end of the top strand = the windows of the reverse "
                  "complement), windowed_eq_full_length + windowed_file_eq_full_length (-W = full length, per sequence and per file, any window size != 1), short_sequences_ignored, file_numbering "
                  "(orf1..n without gap over strands and sequences), workstate_options. Round 6b: histories of calls on ONE object (Set modelled field by field on the existing object): "
                  "set_after_any_history / set_resets_builtin (after ANY list of Set / SetInitiatorAny / SetInitiatorOnlyAUG / Read, Set(t) leaves exactly the freshly set table t; the same table re-selected "
                  "after a policy setter gets its own initiators back; an unknown id leaves the object untouched), policy_setters_overwrite.")
    level_note = ("Trusted: Lean kernel + standard axioms; table dumper; hand model fidelity checked by the differential run (all 18^3 triplets x 18 tables "
                  "x 3 settings every run). The one-frame finder is proved equal to the declarative 'split the frame at stops, drop the codons before the first "
                  "initiator, keep >= minlen' (orf_frame_declarative). Read(Write t) = t is a `decide` theorem over all 18 tables x 3 settings on the "
                  "hand model of esl_gencode_Read/Write (fileparser line skipping + the five anchored regexps), tied by the differential run on "
                  "valid and damaged NCBI texts. Numbering orf1..n and the order of the records (end coordinates strictly advancing in reading direction) are theorem orf_numbering_and_order. "
                  "The main loops do_by_sequences / do_by_windows of miniapps/esl-translate.c are #included into the harness and run on FASTA files (op xlate) with the program's own option table; "
                  "the model of do_by_windows takes the window sizes esl_sqio_ReadWindow delivers (4092, ..., rest) as given (C04).")
    diverge_is_violation = True
    trusted_base = ["table dumper translate/tables_gencode.py (#includes esl_gencode.c, prints esl_transl_tables[])",
                    "hand model of esl_gencode.c tied by exact differential run (h_gencode.c, ASan+UBSan)",
                    "the nucleotide/amino alphabets are the C08 constructor models (C08: ctor_reproduces_tables)"]
    assumptions = ["public functions of esl_gencode.c: Create/Destroy/Set/SetInitiatorAny/SetInitiatorOnlyAUG/Read/Write/GetTranslation/IsInitiator/DecodeDigicodon/DumpAltCodeTable/Compare/"
                   "WorkstateCreate/WorkstateDestroy/ProcessStart/ProcessPiece/ProcessOrf/ProcessEnd are all driven against the model with exact comparison, as are the static do_by_sequences/do_by_windows of "
                   "miniapps/esl-translate.c (its main() set-up is replayed by the harness: option table, -c, -m/-M); "
                   "GetTranslation/IsInitiator on codes >= Kp are driven wherever the model says the loop never dereferences them (behind a gap, * or ~: translation_total); the inputs the model says fault "
                   "(a code >= Kp reached by the loop; DecodeDigicodon outside its bounds: decode_digicodon_bounds) are outside the contracts and not run against the code, where an ASan death would count as a violation",
                   "esl-translate's main(): command-line parsing, file opening and the output of the records with esl_sqio_Write are C13's / C02's business; the harness collects the records in wrk->orf_block, or (out=1) leaves it NULL so that ProcessOrf prints them through esl_sqio_Write to a memory stream: "
                   "the FASTA text (name, description line, 60 residues per line) is compared exactly with the model's fastaOrf and with an independent rendering in the monitor (printed_record_spec: header line + residue lines holding exactly the residues, 60 per line)",
                   "esl_gencode_Read: line splitting + the five anchored regular expressions are modelled by matchLine (total by construction) and tied by exact comparison on byte-level damaged files (readm: flips, "
                   "insertions, deletions, truncation, duplicated / swapped lines, NUL / high bytes / CR / tab / form feed)",
                   "esl_sqio_ReadWindow delivers windows of the strand in reading order with a 2-residue context (C04); the harness builds those windows itself",
                   "the first window of a sequence has >= 2 residues (generated: 2, 3, ...; esl-translate uses a fixed window of 4092); a first window of 1 residue makes ProcessStart read the sentinel: outside the contract",
                   "allocation never fails"]
    rule = ("cases = (table, initiator setting) x {all 18^3 triplets; DNA sequences with stops/initiators/degenerate runs at the ends and inside, "
            "min lengths, strands, window splits; whole FASTA files (sequences of 0..5 residues, all-degenerate sequences, lengths around the 4092 window) through esl-translate's two main loops x "
            "every option combination; histories of Set/SetInitiatorAny/SetInitiatorOnlyAUG/Read on one object, the object printed after every call}; non-trivial = an ORF list with at least one ORF or a full triplet table; distinct by output trace")
    quick_budget_s = 60

    def generated(self, ctx):
        g, tabs = tables_gencode.generate(ctx)
        self._tabs = tabs
        g2, _, _ = tables_alphabet.generate(ctx)     # the alphabets the theorems mention (same file C08 regenerates)
        g.update(g2)
        return g

    # ------------------------------------------------------------------------------------------------------------
    def corpus(self, ctx):
        out = [{"name": "ids", "ops": ["ntables"] + ["table id=%d init=table" % i for i in range(-1, 34)], "sticky": 0}]
        ids = IDS if ctx.tier != "quick" else IDS
        for tid in ids:
            ops = []
            for init in ("table", "any", "aug"):
                ops += ["table id=%d init=%s" % (tid, init), "triplets id=%d init=%s" % (tid, init)]
            ops += ["write id=%d init=table comment=1" % tid, "write id=%d init=any comment=0" % tid]
            ops += ["triplets id=%d init=%s nt=rna" % (tid, init) for init in ("table", "any", "aug")]
            ops += ["write id=%d init=aug comment=1 nt=rna" % tid, "readwrite id=%d init=table comment=0 nt=rna" % tid]
            ops += ["readwrite id=%d init=%s comment=%d" % (tid, init, cm) for init in ("table", "any", "aug") for cm in (0, 1)]
            out.append({"name": "table%d" % tid, "ops": ops, "sticky": 0})
        # damaged NCBI texts, one defect each (Read must answer eslEFORMAT; monitored by py_read)
        aas, starts = PINNED[1]
        b1 = "".join("TCAG"[p // 16] for p in range(64)); b2 = "".join("TCAG"[(p % 16) // 4] for p in range(64))
        b3 = "".join("TCAG"[p % 4] for p in range(64))
        def ncbi(rows):
            return ("\n".join("  %-6s = %s" % (k, v) for k, v in rows) + "\n").encode("latin1").hex()
        base = [("AAs", aas), ("Starts", starts), ("Base1", b1), ("Base2", b2), ("Base3", b3)]
        ops = ["read hex=%s" % ncbi(base), "read hex=%s nt=rna" % ncbi(base)]
        for li in range(5):
            chars = {0: "BXJZOU-~?b5", 1: "*xX +", 2: "NnRr-*~X5", 3: "NnYy-*~X5", 4: "NnKk-*~X5"}[li]
            for pos in (0, 1, 31, 42, 62, 63):
                for ch in chars:
                    rows = [list(r) for r in base]; v = rows[li][1]; rows[li][1] = v[:pos] + ch + v[pos + 1:]
                    ops.append("read hex=%s" % ncbi(rows))
        # exactly one codon missing (another one twice): every column in turn, one base changed to a neighbour
        for col in range(64):
            for li, bl in ((2, b1), (3, b2), (4, b3)):
                if (col + li) % 3: continue
                rows = [list(r) for r in base]
                rows[li][1] = bl[:col] + "TCAG"[("TCAG".index(bl[col]) + 1) % 4] + bl[col + 1:]
                ops.append("read hex=%s" % ncbi(rows))
        # an amino acid never encoded / no stop, lengths 63 and 65, misaligned line, missing line
        for a_from, a_to in (("W", "C"), ("M", "I"), ("*", "W"), ("*", "Q")):
            rows = [list(r) for r in base]; rows[0][1] = aas.replace(a_from, a_to); ops.append("read hex=%s" % ncbi(rows))
        for li in range(5):
            for newv in (base[li][1][:63], base[li][1] + base[li][1][-1]):
                rows = [list(r) for r in base]; rows[li][1] = newv; ops.append("read hex=%s" % ncbi(rows))
            rows = [list(r) for r in base]; del rows[li]; ops.append("read hex=%s" % ncbi(rows))
            if li: ops.append("read hex=%s" % ("\n".join(("  %-6s = %s" if k != li else "  %-6s =  %s") % base[k] for k in range(5)) + "\n").encode().hex())
        out.append({"name": "read-damage", "ops": ops, "sticky": 0})
        # the small public functions: DecodeDigicodon for every int in a range around 0..63 (beyond: reads of sym[4..Kp], the NUL,
        # the terminating NUL of sym[]), DumpAltCodeTable, Compare on pairs of codes
        out.append({"name": "small-api", "sticky": 0, "ops": ["alttable"] + ["decode d=%d" % d for d in range(0, 304)] +
                    ["decode d=%d nt=rna" % d for d in (0, 3, 12, 15, 48, 63, 64, 287, 288, 303)]})
        # (an index outside 0..63 is outside the documented contract; the bounds theorem decode_digicodon_bounds says which ints read outside sym[])
        ops = []
        for t1 in (1, 2, 4, 11, 25):
            for t2 in (1, 4, 11, 12, 25):
                for i1, i2, meta in (("table", "table", 0), ("table", "table", 1), ("any", "any", 0), ("aug", "aug", 1), ("table", "any", 0), ("aug", "any", 0)):
                    ops.append("compare id=%d init=%s id2=%d init2=%s meta=%d" % (t1, i1, t2, i2, meta))
        ops += ["compare id=1 init=table id2=1 init2=table meta=1 nt2=rna", "compare id=1 init=table nt=rna id2=1 init2=table meta=1 nt2=rna",
                "compare id=1 init=aug nt=rna id2=1 init2=aug meta=0", "compare id=7 init=table id2=1 init2=table meta=0", "compare id=1 init=table id2=8 init2=table meta=0"]
        out.append({"name": "compare", "sticky": 0, "ops": ops})
        def orf(dna, **kw):
            d = dict(id=1, init="any", using=0, minlen=0, strand="b", cuts="-"); d.update(kw)
            return "orfs id=%(id)d init=%(init)s using=%(using)d minlen=%(minlen)d strand=%(strand)s dna=%(dna)s cuts=%(cuts)s" % dict(d, dna=dna.encode().hex() or "-")
        out.append({"name": "orf-basics", "sticky": 0, "ops": [
            orf(""), orf("A"), orf("AT"), orf("ATG"), orf("TAA"), orf("ATGTAA"), orf("TAAATG"), orf("ATGAAATAA", minlen=2),
            orf("ATGAAATAA", minlen=3), orf("NNNNNNNNNNNN"), orf("ATGNNNTAA"), orf("CTGAAATGA", init="table", using=1),
            orf("CTGAAATGA", init="aug", using=2), orf("AAACTGAAATGACC", init="table", using=1, cuts="3,1,1,1,1,1,1,1,1,1,1,1"),
            orf("ATGAAATAAATGCCCTAGG", cuts="3,3,3,3,3,4"), orf("ATGAAATAAATGCCCTAGG", cuts="4,5,10"), orf("TTATTTCAT", strand="c"),
            orf("ATGRAYTAR", minlen=1), orf("ATGTRATAA", minlen=1), orf("ATG-AATAA", minlen=1)]})
        # histories on one object: for every table, every other table set before it, policy setters in between, the SAME table re-selected
        ops = []
        for t in IDS:
            ops.append(self.hist_op(None, ["a", "s%d" % t, "a", "s%d" % t, "u", "s%d" % t, "u", "a", "s%d" % t, "s99", "s%d" % t], nt=""))
            ops.append(self.hist_op(None, [x for t2 in IDS for x in ("s%d" % t2, "a", "s%d" % t)], nt=""))
            ops.append(self.hist_op(None, ["u", "s%d" % t, "a", "s%d" % t], nt=" nt=rna"))
        out.append({"name": "histories", "sticky": 0, "ops": ops})
        # GetTranslation / IsInitiator on codes outside the alphabet that the loop never dereferences (translation_total: a gap, `*` or `~`
        # in front ends the loop at once): every byte value behind an empty first code, and behind an empty second code
        ops = []
        odd = (0, 4, 15, 17, 18, 31, 32, 127, 128, 254, 255)
        for init in ("table", "any", "aug"):
            for a in (4, 16, 17):
                for b in odd:
                    for c in odd: ops.append("codon id=1 init=%s a=%d b=%d c=%d" % (init, a, b, c))
            for a in (0, 3, 5, 15):
                for b in (4, 16, 17):
                    for c in odd: ops.append("codon id=1 init=%s a=%d b=%d c=%d" % (init, a, b, c))
        out.append({"name": "codon-total", "sticky": 0, "ops": ops})
        # whole files through the real main loops of esl-translate.c: every combination of --watson/--crick/-m/-M/-W, minlen 0/1,
        # sequences of 0..5 residues, every table x initiator option on a sequence made only of degenerate residues
        import random as _r
        rg = _r.Random(17)
        ops = []
        short = [("e", "", ""), ("a", "x", "A"), ("b", "", "AT"), ("c", "c d", "ATG"), ("d", "", "ATGA"), ("f", "dd", "NTGAR"), ("g", "", "ATGAAATAAATGCCCTAGG")]
        for W in (0, 1):
            for wat, cri in ((0, 0), (1, 0), (0, 1), (1, 1)):
                for m, M in ((0, 0), (1, 0), (0, 1)):
                    for l in (0, 1):
                        ops.append(self.xlate_op(rg, 1, short, l=l, m=m, M=M, watson=wat, crick=cri, W=W, lw=60))
                        ops.append(self.xlate_op(rg, 1, short, l=l, m=m, M=M, watson=wat, crick=cri, W=W, lw=60, out=1))
        long_orf = [("long", "a 150-residue ORF", "ATG" + "GCT" * 149 + "TAA"), ("sixty", "", "ATG" + "AAA" * 59 + "TGA"), ("sixtyone", "", "ATG" + "AAA" * 60)]
        ops.append(self.xlate_op(rg, 1, long_orf, l=20, m=0, M=0, watson=0, crick=0, W=0, lw=60, out=1))
        ops.append(self.xlate_op(rg, 1, long_orf, l=20, m=1, M=0, watson=1, crick=0, W=1, lw=60, out=1))
        ops.append(self.xlate_op(rg, 1, short, l=0, m=1, M=1, watson=0, crick=0, W=0, lw=60))
        ops.append(self.xlate_op(rg, 7, short, l=0, m=0, M=0, watson=0, crick=0, W=0, lw=60))
        out.append({"name": "xlate-options", "sticky": 0, "ops": ops})
        ops = []
        for tid in IDS:
            degs = [("n%d" % k, "", "".join(rg.choice("RYMKSWHBVDN") for _ in range(L))) for k, L in enumerate((3, 4, 5, 9, 31, 60))]
            degs.append(("ryn", "", "".join(rg.choice("RYH") for _ in range(90))))
            for m, M in ((0, 0), (1, 0), (0, 1)):
                ops.append(self.xlate_op(rg, tid, degs, l=rg.choice([0, 1]), m=m, M=M, watson=0, crick=0, W=rg.randrange(2), lw=60))
        out.append({"name": "xlate-degenerate", "sticky": 0, "ops": ops})
        ops = []
        for L in (4091, 4092, 4093, 4094, 4095, 8184, 8185, 8186, 8187):
            dna = self.rand_dna(rg, L, 1)
            for W in (0, 1):
                ops.append(self.xlate_op(rg, 1, [("w", "win", dna), ("t", "", "ATGAAATAA")], l=5, m=0, M=0, watson=0, crick=0, W=W, lw=60))
        out.append({"name": "xlate-window-boundaries", "sticky": 0, "ops": ops})
        return out

    # ------------------------------------------------------------------------------------------------------------
    def rand_dna(self, rng, L, tid):
        aas, _ = PINNED[tid]
        stops = ["".join(("TCAG"[p // 16], "TCAG"[(p % 16) // 4], "TCAG"[p % 4])) for p in range(64) if aas[p] == "*"]
        mode = rng.random()
        if mode > 0.94:         # made only of degenerate residues (with and without N): every codon takes the GetTranslation / IsInitiator path
            alph = rng.choice(["RYMKSWHBVDN", "RYMKSWHBVD", "RY", "RYN", "MKSW"])
            return "".join(rng.choice(alph) for _ in range(L))
        pdeg = 0.0 if mode < 0.4 else (0.02 if mode < 0.8 else 0.2)
        pstop = rng.choice([0.0, 0.01, 0.03, 0.1])
        s = []
        while len(s) < L:
            r = rng.random()
            if r < pstop: s.extend(rng.choice(stops))
            elif r < pstop + 0.03: s.extend("ATG")
            elif r < pstop + 0.03 + pdeg:
                if rng.random() < 0.3: s.extend("N" * rng.randrange(1, 12))
                else: s.append(rng.choice("RYMKSWHBVDN"))
            elif r < pstop + 0.03 + pdeg + 0.01: s.extend(rng.choice(["TAR", "TRA", "YTG", "HTG", "ATH", "GGN", "MGR", "YTN"]))
            else: s.append(rng.choice("ACGT"))
        s = s[:L]
        # adversarial ends: stops / initiators touching either end
        for _ in range(rng.randrange(0, 3)):
            if L >= 3:
                cod = rng.choice(stops + ["ATG", "NNN", "CTG"])
                pos = rng.choice([0, 1, 2, L - 3, L - 4, L - 5, rng.randrange(0, L - 2)])
                if 0 <= pos <= L - 3: s[pos:pos + 3] = list(cod)
        if rng.random() < 0.2: s = [c.lower() if rng.random() < 0.5 else c for c in s]
        return "".join(s)

    def rand_ncbi_text(self, rng, tid):
        """an NCBI genetic-code file: the pinned table, mostly valid, with layout variations and typical damage"""
        aas, starts = PINNED[tid]
        b1 = "".join("TCAG"[p // 16] for p in range(64)); b2 = "".join("TCAG"[(p % 16) // 4] for p in range(64))
        b3 = "".join("TCAG"[p % 4] for p in range(64))
        rows = [["AAs", aas], ["Starts", starts], ["Base1", b1], ["Base2", b2], ["Base3", b3]]
        r = rng.random()
        if r < 0.5: pass
        elif r < 0.56: i = rng.randrange(64); rows[0][1] = aas[:i] + rng.choice("ACDEFGHIKLMNPQRSTVWY*XBZJOU-?ac") + aas[i + 1:]
        elif r < 0.62: i = rng.randrange(64); rows[1][1] = starts[:i] + rng.choice("Mm-*x ") + starts[i + 1:]
        elif r < 0.68: k = rng.randrange(2, 5); i = rng.randrange(64); rows[k][1] = rows[k][1][:i] + rng.choice("TCAGUtcagNn-") + rows[k][1][i + 1:]
        elif r < 0.73: k = rng.randrange(5); rows[k][1] = rows[k][1][:rng.choice([0, 1, 63, 62])]
        elif r < 0.77: k = rng.randrange(5); rows[k][1] += rng.choice("AM-T")
        elif r < 0.81: del rows[rng.randrange(5)]
        elif r < 0.85: i, j = rng.sample(range(5), 2); rows[i], rows[j] = rows[j], rows[i]
        elif r < 0.89: rows[0][1] = aas.replace("*", rng.choice("WQ"))          # no stop codon
        elif r < 0.93: rows[0][1] = aas.replace(rng.choice("WMCYHFDEKNQ"), "L")   # an amino acid never encoded
        elif r < 0.96: rows[2][1] = b2                                            # codons repeated / missing
        else: rows[rng.randrange(len(rows))][0] = rng.choice(["AA", "Start", "Base", "Base4", "xAAs", "AAs:"])
        pad = rng.choice([None, None, 0, 2, 5])
        lines = []
        if rng.random() < 0.3: lines.append("# %d some table" % tid)
        for i, (kw, data) in enumerate(rows):
            if rng.random() < 0.1: lines.append(rng.choice(["", "   ", "# comment", "\t#x"]))
            if pad is None:
                lead = {"AAs": "    ", "Starts": "  ", "Base1": "  ", "Base2": "  ", "Base3": "  "}.get(kw, "  ")
                sep = {"AAs": "  = ", "Starts": " = "}.get(kw, "  = ")
            else:
                width = 8 + pad
                lead = " " * (width - len(kw)) if len(kw) <= width else ""
                sep = rng.choice([" = ", " = "])
                if rng.random() < 0.06: sep = rng.choice(["= ", " =", "=", "  =  "])   # breaks the column alignment
            if rng.random() < 0.15: kw = kw[0].swapcase() + kw[1:]
            if rng.random() < 0.03: kw = kw.upper()
            tail = rng.choice(["", "", "", " ", "  \t", "\r"])
            lines.append(lead + kw + sep + data + tail)
        txt = "\n".join(lines) + ("\n" if rng.random() < 0.9 else "")
        return txt.encode("latin1")

    def mutated_ncbi_text(self, rng, tid):
        """a valid NCBI genetic-code file damaged at the byte level (flips, insertions, deletions, duplicated / swapped / truncated
        lines, stray NULs, high bytes, CR, tabs, form feeds): compared exactly with the model (no independent oracle: the
        regular-expression corner cases are the model's business); whatever comes back must be ok or eformat, never a fault"""
        aas, starts = PINNED[tid]
        b1 = "".join("TCAG"[p // 16] for p in range(64)); b2 = "".join("TCAG"[(p % 16) // 4] for p in range(64))
        b3 = "".join("TCAG"[p % 4] for p in range(64))
        txt = bytearray(("    AAs  = %s\n  Starts = %s\n  Base1  = %s\n  Base2  = %s\n  Base3  = %s\n" % (aas, starts, b1, b2, b3)).encode())
        for _ in range(rng.choice([1, 1, 1, 2, 3, 6])):
            r = rng.random(); n = len(txt)
            if n == 0: break
            i = rng.randrange(n)
            if r < 0.3: txt[i] = rng.choice([rng.randrange(256), rng.randrange(32, 127), 0x20, 0x09, 0x0d, 0x0c, 0x0b, 0x3d, 0x23, 0x2a, 0x2d, 0x4d, 0x6d, 0x55, 0x75, 0xff, 0x80, 0x00, 0x00])
            elif r < 0.45: txt[i:i] = bytes([rng.choice([0x20, 0x09, 0x0a, 0x0d, 0x0b, 0x00, 0x3d, 0x41, 0x54, 0x2a, 0x2d, rng.randrange(1, 256)])])
            elif r < 0.6: del txt[i]
            elif r < 0.68: del txt[i:]                                                  # truncated file
            elif r < 0.76:
                lines = bytes(txt).split(b"\n"); j = rng.randrange(len(lines)); lines.insert(j, lines[rng.randrange(len(lines))]); txt = bytearray(b"\n".join(lines))
            elif r < 0.84:
                lines = bytes(txt).split(b"\n"); a, b = rng.randrange(len(lines)), rng.randrange(len(lines)); lines[a], lines[b] = lines[b], lines[a]; txt = bytearray(b"\n".join(lines))
            elif r < 0.9: txt[i:i] = rng.choice([b"\n", b"\n\n", b"\n# c\n", b"\r\n", b" \n \n"])
            elif r < 0.95: txt = bytearray(bytes(txt).replace(b"T", rng.choice([b"U", b"t", b"u"])))  # RNA / lower-case bases (also hits AAs 'T' = Thr)
            else: txt = bytearray(bytes(txt).replace(b"  =", rng.choice([b"=", b" =", b"   =", b"\t="]), rng.choice([1, 5])))
        return bytes(txt).split(b"\0")[0] if rng.random() < 0.2 else bytes(txt)

    def boundary_orfs(self, rng, tid):
        """ORFs of exactly minlen and minlen-1 residues; sequences of 0..5 residues; first window of 2 residues, later windows of
        1 and 2; both strand switches together; with and without required initiators"""
        ops = []
        aas, _ = PINNED[tid]
        sense = ["".join(("TCAG"[p // 16], "TCAG"[(p % 16) // 4], "TCAG"[p % 4])) for p in range(64) if aas[p] != "*"]
        stops = ["".join(("TCAG"[p // 16], "TCAG"[(p % 16) // 4], "TCAG"[p % 4])) for p in range(64) if aas[p] == "*"]
        m = rng.choice([1, 2, 3, 5, 20])
        for n in (m - 1, m, m + 1):
            if n < 1: continue
            body = "ATG" + "".join(rng.choice(sense) for _ in range(n - 1))
            for lead, tail in (("", rng.choice(stops)), (rng.choice(["A", "CC"]), ""), (rng.choice(stops), rng.choice(stops) + "G")):
                dna = lead + body + tail
                init, using = rng.choice([("any", 0), ("table", 1), ("aug", 2)])
                L = len(dna)
                cuts = rng.choice(["-", "2," + ",".join(["1"] * (L - 2)), "2," + ",".join(["2"] * ((L - 2) // 2) + (["1"] if (L - 2) % 2 else [])),
                                   "3," + ",".join(["1"] * (L - 3))]) if L >= 4 else "-"
                cuts = cuts.rstrip(",")
                for strand in ("w", "c", rng.choice("bn")):
                    ops.append("orfs id=%d init=%s using=%d minlen=%d strand=%s dna=%s cuts=%s" % (tid, init, using, m, strand, dna.encode().hex(), cuts))
        for L in range(0, 6):
            dna = "".join(rng.choice("ACGTN") for _ in range(L))
            ops.append("orfs id=%d init=any using=0 minlen=0 strand=b dna=%s cuts=%s" % (tid, dna.encode().hex() or "-", "-" if L < 3 else rng.choice(["-", "2," + ",".join(["1"] * (L - 2))])))
        return ops

    def xlate_op(self, rng, tid, seqs, **kw):
        """one run of esl-translate's main loops over a FASTA file of <seqs> = [(name, desc, dna)]"""
        d = dict(id=tid, l=rng.choice([0, 0, 1, 1, 2, 5, 20]), m=0, M=0, watson=0, crick=0, W=0, lw=rng.choice([60, 60, 1, 3, 70, 4092, 100000]))
        r = rng.random()
        if r < 0.25: d["m"] = 1
        elif r < 0.5: d["M"] = 1
        r = rng.random()
        if r < 0.2: d["watson"] = 1
        elif r < 0.4: d["crick"] = 1
        elif r < 0.45: d["watson"] = d["crick"] = 1
        d["W"] = 1 if rng.random() < 0.5 else 0
        d["out"] = 1 if rng.random() < 0.3 else 0       # no ORF block: the records are printed (FASTA) as esl-translate prints them
        d.update(kw)
        op = "xlate id=%(id)d l=%(l)d m=%(m)d M=%(M)d watson=%(watson)d crick=%(crick)d W=%(W)d lw=%(lw)d out=%(out)d" % d
        op += " n=%d" % len(seqs)
        for i, (nm, ds, dna) in enumerate(seqs):
            op += " name%d=%s desc%d=%s dna%d=%s" % (i, nm, i, ds.encode().hex() or "-", i, dna.encode().hex() or "-")
        return op

    def xlate_cases(self, rng, tid, big):
        """whole files through do_by_sequences / do_by_windows: sequences of 0..5 residues between longer ones, sequences made
        only of degenerate residues, lengths around the 4092-residue window of -W (4090..4096, 8183..8186), every option combination"""
        seqs = []
        for i in range(rng.randrange(1, 6)):
            r = rng.random()
            if r < 0.3: L = rng.randrange(0, 6)
            elif r < 0.8 or not big: L = rng.randrange(3, 200)
            else: L = rng.choice([4090, 4091, 4092, 4093, 4094, 4095, 4096, 8183, 8184, 8185, 8186, rng.randrange(4000, 9000)])
            r = rng.random()
            if r < 0.25: dna = "".join(rng.choice("RYMKSWHBVDN") for _ in range(L))          # only degenerate residues
            elif r < 0.35: dna = "".join(rng.choice("RYN") for _ in range(L))
            else: dna = self.rand_dna(rng, L, tid)
            seqs.append(("s%d" % i, rng.choice(["", "d%d" % i, "two words"]), dna))
        return self.xlate_op(rng, tid, seqs)

    def hist_op(self, rng, toks=None, nt=None):
        """a history of calls on ONE gencode object: s<id> = Set (known and unknown ids, the same id again after a policy setter),
        a = SetInitiatorAny, u = SetInitiatorOnlyAUG, r<k> = Read of an NCBI text (valid / damaged), object printed after every step"""
        reads = {}
        if toks is None:
            toks = []
            cur = 1
            for _ in range(rng.randrange(1, 11)):
                r = rng.random()
                if r < 0.2: toks.append("s%d" % cur)                               # the SAME table again
                elif r < 0.45: cur = rng.choice(IDS); toks.append("s%d" % cur)
                elif r < 0.52: toks.append("s%d" % rng.choice([0, 7, 8, 15, 17, 26, 33, -1, 100]))
                elif r < 0.68: toks.append("a")
                elif r < 0.84: toks.append("u")
                else:
                    k = len(reads); tid = rng.choice(IDS)
                    if rng.random() < 0.7: key = "r%d" % k; reads[key] = self.rand_ncbi_text(rng, tid)
                    else: key = "m%d" % k; reads[key] = self.mutated_ncbi_text(rng, tid)          # byte-damaged: no independent oracle
                    toks.append(key)
            if rng.random() < 0.7: toks.append("s%d" % rng.choice([cur, cur, rng.choice(IDS)]))
        if nt is None: nt = " nt=rna" if rng.random() < 0.2 else ""
        return "hist ops=%s%s%s" % (",".join(toks), "".join(" %s=%s" % (k, v.hex() or "-") for k, v in reads.items()), nt)

    def rand_cuts(self, rng, L):
        if L < 3: return "-"
        r = rng.random()
        if r < 0.25: return "-"
        cuts = []
        first = rng.choice([2, 3, 3, 4, 5, rng.randrange(3, L + 1)])
        first = min(first, L)
        cuts.append(first); rest = L - first
        style = rng.random()
        while rest > 0:
            if style < 0.25: k = 1
            elif style < 0.45: k = 3
            elif style < 0.6: k = rng.randrange(1, 4)
            elif style < 0.8: k = rng.randrange(1, 60)
            else: k = rng.choice([3, 6, 4092 % 97 + 3, rng.randrange(1, rest + 1)])
            k = min(k, rest); cuts.append(k); rest -= k
        if len(cuts) > 4000: return "-"
        return ",".join(map(str, cuts))

    def cases(self, ctx):
        rng = ctx.rng
        n = 1500 if ctx.tier == "quick" else 12000
        out = []
        for i in range(n):
            ops = []
            tid = rng.choice(IDS) if rng.random() < 0.7 else rng.choice([1, 4, 11, 2])
            for _ in range(rng.randrange(1, 5)):
                r = rng.random()
                if r < 0.08: L = rng.randrange(0, 8)
                elif r < 0.6: L = rng.randrange(3, 120)
                elif r < 0.97 or ctx.tier == "quick" and i % 100 != 0: L = rng.randrange(120, 1500)
                else: L = rng.randrange(8000, 20001)
                dna = self.rand_dna(rng, L, tid)
                init, using = rng.choice([("any", 0), ("any", 0), ("table", 1), ("aug", 2), ("table", 0), ("aug", 0), ("any", 1)])
                minlen = rng.choice([0, 0, 1, 2, 3, 5, 10, 20, 50])
                strand = rng.choice(["b", "b", "w", "c"])
                ntsel = " nt=rna" if rng.random() < 0.2 else ""
                if ntsel and rng.random() < 0.7: dna = dna.replace("T", "U").replace("t", "u")
                ops.append("orfs id=%d init=%s using=%d minlen=%d strand=%s dna=%s cuts=%s%s" % (
                    tid, init, using, minlen, strand, dna.encode().hex() or "-", self.rand_cuts(rng, L), ntsel))
                if rng.random() < 0.3:      # same sequence, another split: the ORF list must be identical
                    ops.append("orfs id=%d init=%s using=%d minlen=%d strand=%s dna=%s cuts=%s" % (
                        tid, init, using, minlen, strand, dna.encode().hex() or "-", self.rand_cuts(rng, L)))
            if rng.random() < 0.35:
                ops.append("read hex=%s%s" % (self.rand_ncbi_text(rng, tid).hex(), " nt=rna" if rng.random() < 0.2 else ""))
            if rng.random() < 0.4:
                ops.append("read hex=%s%s" % (self.mutated_ncbi_text(rng, tid).hex() or "-", " nt=rna" if rng.random() < 0.2 else ""))
                ops[-1] = "readm" + ops[-1][4:]
            if rng.random() < 0.08:
                ops += self.boundary_orfs(rng, tid)
            if rng.random() < 0.25:
                ops.append(self.xlate_cases(rng, tid, i % 25 == 0))
            if rng.random() < 0.3:
                ops.append(self.hist_op(rng))
            if rng.random() < 0.1:
                ops.append("decode d=%d%s" % (rng.choice([rng.randrange(0, 64), rng.randrange(0, 304)]), rng.choice(["", " nt=rna"])))
                ops.append("compare id=%d init=%s id2=%d init2=%s meta=%d%s" % (tid, rng.choice(["table", "any", "aug"]), rng.choice(IDS + [tid, tid]),
                                                                                 rng.choice(["table", "any", "aug"]), rng.randrange(2), rng.choice(["", "", " nt2=rna", " nt=rna nt2=rna"])))
            if rng.random() < 0.2:
                ops.append("codon id=%d init=%s a=%d b=%d c=%d" % (tid, rng.choice(["table", "any", "aug"]), rng.randrange(18), rng.randrange(18), rng.randrange(18)))
            if rng.random() < 0.1:
                if rng.random() < 0.5: a, b = rng.choice([4, 16, 17]), rng.randrange(256)
                else: a, b = rng.choice([0, 1, 2, 3, 5, 6, 7, 8, 9, 10, 11, 12, 13, 14, 15]), rng.choice([4, 16, 17])
                ops.append("codon id=%d init=%s a=%d b=%d c=%d%s" % (tid, rng.choice(["table", "any", "aug"]), a, b, rng.randrange(256), rng.choice(["", " nt=rna"])))
            out.append({"name": "gen%d" % i, "ops": ops, "sticky": 0})
        return out

    # ------------------------------------------------------------------------------------------------------------
    def canonical(self, line):
        return "fault" if line.startswith("fault") else line

    def nontrivial(self, case, out):
        return any((l.startswith("ok n=") and not l.startswith("ok n=0")) or l.startswith("ok tr=") or (l.startswith("ok w=") and " n=0" not in l and " text=-" not in l) for l in out)

    def _monitor(self, ctx, case, out):
        prev_orf = None
        for op, l in zip(case["ops"], out):
            if l.startswith(("fault", "atexit")): return None
            w = op.split(); d = kv(op); name = w[0]
            if name == "ntables":
                got = l.split("=", 1)[1] if "=" in l else ""
                if got != ",".join(map(str, IDS)):
                    return Failure("monitor", "the library offers tables %s, pinned set is %s" % (got, IDS))
                continue
            if name == "decode":
                dd = int(d["d"])
                if 0 <= dd < 64:
                    letters = "ACGU" if d.get("nt") == "rna" else "ACGT"
                    want = "ok " + "".join(letters[i] for i in (dd // 16, (dd % 16) // 4, dd % 4)).encode().hex()
                    if l != want: return Failure("monitor", "DecodeDigicodon(%d) answered %r, the codon is %s" % (dd, l[:40], want))
                continue
            if name == "alttable":
                txt = unhex(l.split()[1]).decode("latin1").split("\n") if l.startswith("ok ") else []
                ids = []
                for row in txt[2:]:
                    if row.strip(): ids.append(int(row.split()[0]))
                if not l.startswith("ok ") or txt[:1] != ["id  description"] or sorted(ids) != IDS:
                    return Failure("monitor", "DumpAltCodeTable does not list exactly the pinned table ids: %s" % ids)
                continue
            if name == "compare":
                t1, t2 = int(d.get("id", 1)), int(d.get("id2", 1))
                if t1 not in PINNED or t2 not in PINNED:
                    if l != "enotfound": return Failure("monitor", "compare with an unknown table id answered %r" % l[:40])
                    continue
                a1 = pinned_arrays(t1, d.get("init", "table")); a2 = pinned_arrays(t2, d.get("init2", "table"))
                same = (list(a1[0]) == list(a2[0]) and list(a1[1]) == list(a2[1]) and d.get("nt", "dna") == d.get("nt2", "dna")
                        and (int(d.get("meta", 0)) == 0 or t1 == t2))
                if l != ("ok same" if same else "ok differ"):
                    return Failure("monitor", "esl_gencode_Compare(table %d/%s, table %d/%s, meta=%s) answered %r" % (t1, d.get("init"), t2, d.get("init2"), d.get("meta"), l[:40]))
                continue
            if name == "hist":
                cur = (list(pinned_arrays(1, "table")[0]), list(pinned_arrays(1, "table")[1]), 1)
                steps = l.split()[1:]; toks = [t for t in d["ops"].split(",") if t]
                if not l.startswith("ok") or len(steps) != len(toks):
                    return Failure("monitor", "history: %d steps answered for %d calls: %r" % (len(steps), len(toks), l[:60]))
                for k, (t, ans) in enumerate(zip(toks, steps)):
                    st, gid, _desc, gb, gi = ans.split(":")
                    want_st = "ok"
                    if t[0] == "s":
                        tid = int(t[1:])
                        if tid in PINNED: b_, i_ = pinned_arrays(tid, "table"); cur = (list(b_), list(i_), tid)
                        else: want_st = "enotfound"
                    elif t == "a": cur = (cur[0], [1 if x < 20 else 0 for x in cur[0]], cur[2])
                    elif t == "u": cur = (cur[0], [1 if c == 14 else 0 for c in range(64)], cur[2])
                    elif t[0] == "r":
                        got = py_read(unhex(d[t]))
                        if got is None: want_st = "eformat"
                        else: cur = (list(got[0]), list(got[1]), -1)
                    else:   # byte-damaged text: no independent oracle for the regular-expression corner cases (the model is compared exactly);
                            # eslOK must bring a genetic code that replaces the object, anything else must leave the object as it was
                        if st == "ok":
                            bs = list(unhex(gb))
                            if len(bs) != 64 or STOP not in bs or any(x not in bs for x in range(20)) or any(x >= 20 and x != STOP for x in bs):
                                return Failure("monitor", "history %s: call %d: esl_gencode_Read accepted a table that is not a genetic code" % (d["ops"], k + 1))
                            cur = (bs, [1 if x else 0 for x in unhex(gi)], -1)
                        else: want_st = "eformat"
                    if st != want_st or int(gid) != cur[2] or list(unhex(gb)) != cur[0] or [1 if x else 0 for x in unhex(gi)] != cur[1]:
                        return Failure("monitor", "history %s: after call %d (%s) the object is table %s / status %s with %d initiators; a fresh object would be table %d / %s with %d initiators%s" % (
                            d["ops"], k + 1, t, gid, st, sum(1 for x in unhex(gi) if x), cur[2], want_st, sum(cur[1]), "" if list(unhex(gb)) == cur[0] else " (translations differ)"))
                continue
            if name == "xlate":
                if int(d.get("m", 0)) and int(d.get("M", 0)):
                    if l != "bad-options": return Failure("monitor", "esl-translate accepted -m together with -M: %r" % l[:60])
                    continue
                tid = int(d.get("id", 1))
                if tid not in PINNED:
                    if l != "enotfound": return Failure("monitor", "unknown table id %d answered %r" % (tid, l[:60]))
                    continue
                init = "aug" if int(d["m"]) else ("table" if int(d["M"]) else "any")
                basic, ini = pinned_arrays(tid, init)
                using = bool(int(d["m"]) or int(d["M"])); minlen = int(d["l"])
                strands = ("" if int(d["crick"]) else "w") + ("" if int(d["watson"]) else "c")
                want = []
                for i in range(int(d["n"])):
                    dna = unhex(d["dna%d" % i]).decode("latin1").upper().replace("U", "T")
                    codes = [NUC.index(c) for c in dna]
                    src = d["name%d" % i]; ds = unhex(d["desc%d" % i]).decode("latin1")
                    for (f, st, en, aa) in spec_orfs(codes, basic, ini, using, minlen, strands):
                        want.append((st, en, aa, "source=%s coords=%d..%d length=%d frame=%d desc=%s" % (src, st, en, len(aa), f, ds)))
                toks = l.split()
                if int(d.get("out", 0)):
                    txt = "".join(">orf%d %s\n" % (k + 1, w_[3]) + "".join("".join(AMINO[x] for x in w_[2][p:p + 60]) + "\n" for p in range(0, len(w_[2]), 60))
                                  for k, w_ in enumerate(want))
                    hdr = "ok w=%d c=%d u=%d l=%d f=1 text=%s" % (0 if int(d["crick"]) else 1, 0 if int(d["watson"]) else 1, 1 if using else 0, minlen, txt.encode("latin1").hex() or "-")
                    if l != hdr:
                        got = unhex(toks[-1].split("=", 1)[1]).decode("latin1") if toks and toks[-1].startswith("text=") else l
                        i = next((k for k in range(min(len(got), len(txt))) if got[k] != txt[k]), min(len(got), len(txt)))
                        return Failure("monitor", "esl-translate prints %r where the specification has %r (offset %d; header %r)" % (got[max(0, i - 40):i + 40], txt[max(0, i - 40):i + 40], i, " ".join(toks[:6])))
                    continue
                hdr = "ok w=%d c=%d u=%d l=%d f=1 n=%d" % (0 if int(d["crick"]) else 1, 0 if int(d["watson"]) else 1, 1 if using else 0, minlen, len(want))
                if " ".join(toks[:7]) != hdr:
                    return Failure("monitor", "esl-translate main loop: work state / ORF count %r, specification %r" % (" ".join(toks[:7]), hdr))
                for k, t in enumerate(toks[7:]):
                    nm, st, en, ln, aa, desc = t.split(":")
                    got = (nm, int(st), int(en), int(ln), list(unhex(aa)), unhex(desc).decode("latin1"))
                    w_ = want[k]
                    wantk = ("orf%d" % (k + 1), w_[0], w_[1], len(w_[2]), w_[2], w_[3])
                    if got != wantk:
                        return Failure("monitor", "esl-translate ORF %d: got %r, specification %r" % (k + 1, got[:4] + (got[5],), wantk[:4] + (wantk[5],)))
                continue
            if name == "readm":
                if not (l == "eformat" or l.startswith("ok id=-1 desc=- basic=")):
                    return Failure("monitor", "esl_gencode_Read on a damaged file answered neither ok nor eformat: %r" % l[:60])
                if l.startswith("ok"):
                    r = kv(l); bs = list(unhex(r["basic"]))
                    if len(bs) != 64 or STOP not in bs or any(x not in bs for x in range(20)) or any(x >= 20 and x != STOP for x in bs):
                        return Failure("monitor", "esl_gencode_Read accepted a table that is not a genetic code (a missing amino acid / no stop / a non-residue)")
                continue
            if name == "read":
                want = py_read(unhex(d["hex"]))
                if want is None:
                    if l.startswith("ok"): return Failure("monitor", "esl_gencode_Read accepted a malformed NCBI table")
                else:
                    r = kv(l)
                    if not l.startswith("ok") or list(unhex(r["basic"])) != want[0] or list(unhex(r["init"])) != want[1]:
                        return Failure("monitor", "esl_gencode_Read of a well-formed NCBI table: %s" % l[:50])
                continue
            tid = int(d.get("id", 1)); init = d.get("init", "table")
            if tid not in PINNED:
                if l != "enotfound": return Failure("monitor", "unknown table id %d answered %r" % (tid, l[:60]))
                continue
            basic, ini = pinned_arrays(tid, init)
            if name == "table":
                r = kv(l)
                if list(unhex(r.get("basic", "-"))) != basic:
                    gb = list(unhex(r.get("basic", "-")))
                    bad = [c for c in range(64) if c >= len(gb) or gb[c] != basic[c]]
                    cod = "".join("ACGT"[(bad[0] >> s) & 3] for s in (4, 2, 0))
                    return Failure("monitor", "table %d: codon %s translates to %r, NCBI table says %r" % (
                        tid, cod, AMINO[gb[bad[0]]] if bad[0] < len(gb) and gb[bad[0]] < len(AMINO) else "?", AMINO[basic[bad[0]]]))
                if list(unhex(r.get("init", "-"))) != ini:
                    return Failure("monitor", "table %d (%s): initiator flags differ from the pinned NCBI start string" % (tid, init))
            elif name == "triplets":
                r = kv(l); tr, inn = unhex(r.get("tr", "-")), unhex(r.get("in", "-"))
                k = 0
                if len(tr) != 18 ** 3 or len(inn) != 18 ** 3: return Failure("monitor", "triplets: wrong size")
                for a in range(18):
                    for b in range(18):
                        for c in range(18):
                            wa, wi = translate(basic, ini, a, b, c)
                            if tr[k] != wa or (inn[k] != 0) != (wi != 0):
                                return Failure("monitor", "table %d init=%s codon %s%s%s: translation %d initiator %d, specification %d %d" % (
                                    tid, init, NUC[a], NUC[b], NUC[c], tr[k], inn[k], wa, wi))
                            k += 1
            elif name == "write":
                got = py_read(unhex(l.split()[1])) if l.startswith("ok ") else None
                if got is None or got[0] != basic or got[1] != ini:
                    return Failure("monitor", "table %d (%s) written in NCBI form is not the pinned NCBI table" % (tid, init))
                if int(d.get("comment", 0)) and not unhex(l.split()[1]).startswith(b"# %d " % tid):
                    return Failure("monitor", "table %d: comment line missing" % tid)
            elif name == "readwrite":
                if not l.startswith("ok same id=-1 desc=-"):
                    return Failure("monitor", "table %d (%s) written in NCBI form and read back: %s" % (tid, init, l[:60]))
            elif name == "codon":
                abc = (int(d["a"]), int(d["b"]), int(d["c"]))
                if max(abc) >= 18:      # only generated behind a code that stands for nothing: -1 (255 as ESL_DSQ), not an initiator
                    r = kv(l); wa, wi = 255, 0
                else:
                    r = kv(l); wa, wi = translate(basic, ini, *abc)
                if (int(r["aa"]) % 256) != wa or (int(r["init"]) != 0) != (wi != 0):
                    return Failure("monitor", "codon: %s vs specification aa=%d init=%d" % (l, wa, wi))
            elif name == "orfs":
                dna = unhex(d["dna"]).decode("latin1").upper().replace("U", "T")
                try:
                    codes = [NUC.index(c) for c in dna]
                except ValueError:
                    continue
                strands = {"b": "wc", "w": "w", "c": "c", "n": ""}[d["strand"]]
                want = spec_orfs(codes, basic, ini, int(d["using"]) != 0, int(d["minlen"]), strands)
                toks = l.split()
                if toks[0] != "ok": return Failure("monitor", "orfs answered %r" % l[:80])
                got = []
                for t in toks[2:]:
                    nm, fr, st, en, ln, aa, desc = t.split(":")
                    got.append((nm, int(fr), int(st), int(en), int(ln), list(unhex(aa))))
                    wd = "source=seq coords=%s..%s length=%s frame=%s desc=a desc" % (st, en, ln, fr)
                    if unhex(desc).decode("latin1") != wd:
                        return Failure("monitor", "ORF %s: description line %r, expected %r" % (nm, unhex(desc)[:80], wd))
                wantf = [("orf%d" % (i + 1), f, s, e, len(aa), aa) for i, (f, s, e, aa) in enumerate(want)]
                if got != wantf:
                    i = next((k for k in range(min(len(got), len(wantf))) if got[k] != wantf[k]), min(len(got), len(wantf)))
                    g = got[i][:5] if i < len(got) else None; ww = wantf[i][:5] if i < len(wantf) else None
                    return Failure("monitor", "ORF list differs from the specification at record %d: got %r want %r (%d vs %d records)" % (i + 1, g, ww, len(got), len(wantf)))
        return None

    def monitor(self, ctx, case, out):
        st = self.__dict__.setdefault("_dist", {"ops": {}, "results": {}, "arg_bytes": {}})
        for op, l in zip(case["ops"], out):
            name = op.split(" ", 1)[0]
            st["ops"][name] = st["ops"].get(name, 0) + 1
            res = l.split(" ", 1)[0][:24] if l else "<none>"
            if res.startswith("st="): res = res
            key = name + ":" + res
            st["results"][key] = st["results"].get(key, 0) + 1
            n = len(op)
            b = "<64" if n < 64 else "<1k" if n < 1024 else "<8k" if n < 8192 else ">=8k"
            st["arg_bytes"][b] = st["arg_bytes"].get(b, 0) + 1
        try:
            return self._monitor(ctx, case, out)
        except Exception as e:      # an answer the monitor cannot even parse is itself a wrong answer
            bad = next((l for l in out if not l.startswith(("ok", "st=", "dig=", "e", "bad-op", "null", "fault", "atexit"))), out[-1] if out else "")
            return Failure("monitor", "unexpected answer from the implementation (%s: %s): %s" % (type(e).__name__, e, bad[:80]))

    def extra_evidence(self, ctx):
        return {"input_distribution": getattr(self, "_dist", {}), "tables_dumped": [t["id"] for t in getattr(self, "_tabs", [])]}


SPEC = C17()
