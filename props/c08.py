"""C08 — alphabets: digitise/textise faithful, tables consistent.
Model: lean/EaselModel/Alphabet/*, generated tables: lean/EaselModel/Generated/Alphabets.lean (translate/tables_alphabet.py),
theorems: Props/C08.lean, harness: h_alphabet.c"""
import struct, math
from vlib.engine import Prop, Failure, run_side
from translate import tables_alphabet

SENT, ILLEGAL, IGNORED = 255, 254, 253
CR_INTMAX = False    # send start / L = INT_MAX to esl_sq_CountResidues (int overflow in its range test: patch proposed, C08-countresidues-int-overflow)
COPY_XR_NOSS = True    # True once the proposed repair C08-sqcopy-xr-without-ss has landed: esl_sq_Copy text -> digital of an object with xr markup but no ss line
SAFE_GET2 = False    # True = keep away from the esl_sq_GetFromMSA ss-buffer overflow on reuse (repaired in 4807e60: every shape is sent)

# ---- independent statement of the IUPAC codes (hand-written; NOT derived from the code) -------------------------
NUC_SETS = {"A": "A", "C": "C", "G": "G", "T": "T", "R": "AG", "Y": "CT", "M": "AC", "K": "GT", "S": "CG", "W": "AT",
            "H": "ACT", "B": "CGT", "V": "ACG", "D": "AGT", "N": "ACGT", "-": "", "*": "", "~": ""}
NUC_COMP = {"A": "T", "C": "G", "G": "C", "T": "A"}
AMINO_CANON = "ACDEFGHIKLMNPQRSTVWY"
AMINO_SETS = dict({c: c for c in AMINO_CANON}, **{"B": "DN", "J": "IL", "Z": "EQ", "O": "K", "U": "C", "X": AMINO_CANON,
                                                  "-": "", "*": "", "~": ""})
STD = {"dna": ("ACGT-RYMKSWHBVDN*~", 4), "rna": ("ACGU-RYMKSWHBVDN*~", 4), "amino": ("ACDEFGHIKLMNPQRSTVWY-BJZOUX*~", 20),
       "coins": ("HT-X*~", 2), "dice": ("123456-X*~", 6)}
# documented input synonyms (esl_alphabet.c create_*): char -> canonical symbol
SYN = {"dna": {"U": "T", "X": "N", "I": "A", "_": "-", ".": "-"}, "rna": {"T": "U", "X": "N", "I": "A", "_": "-", ".": "-"},
       "amino": {"_": "-", ".": "-"}, "coins": {"_": "-", ".": "-"}, "dice": {"_": "-", ".": "-"}}


def dbits(x):
    return "%016x" % struct.unpack("<Q", struct.pack("<d", x))[0]


def fbits(x):
    if abs(x) > 3.0e38: x = math.copysign(3.0e38, x)
    return "%08x" % struct.unpack("<I", struct.pack("<f", x))[0]


def undbits(s):
    return float("nan") if s == "nan" else struct.unpack("<d", struct.pack("<Q", int(s, 16)))[0]


def unfbits(s):
    return float("nan") if s == "nan" else struct.unpack("<f", struct.pack("<I", int(s, 16)))[0]


def unhex(s):
    return b"" if s == "-" else bytes.fromhex(s)


def hx(b):
    return bytes(b).hex() if len(b) else "-"


def kv(line):
    return dict(w.split("=", 1) for w in line.split() if "=" in w)


def py_guess(ct):
    """the documented rules of esl_abc_GuessAlphabet on 26 letter counts (integer form of the 2% tests): 0 unknown, 1 RNA, 2 DNA, 3 amino"""
    n = sum(ct); g = lambda s_: sum(ct[ord(c) - 65] for c in s_); seen = lambda s_: sum(1 for c in s_ if ct[ord(c) - 65] > 0)
    if n <= 10: return 0
    if n > 2000 and ct[13] == n: return 2
    if g("EFIJLOPQZ") > 0: return 3
    if 50 * (n - g("ACGTN")) <= n and seen("ACGT") == 4: return 2
    if 50 * (n - g("ACGUN")) <= n and seen("ACGU") == 4: return 1
    if 50 * (n - g("EFIJLOPQZACGDHKMRSVWYNTX")) <= n and g("DHKMRSVWY") > g("ACG") and seen("EFIJLOPQZACGDHKMRSVWYNT") >= 15: return 3
    return 0


def row_counts(r_):
    ct = [0] * 26; nl = 0
    for c in r_:
        if 65 <= c <= 90 or 97 <= c <= 122:
            ct[(c & 0xDF) - 65] += 1; nl += 1
            if nl > 10000: break
    return ct


class Abc:
    """alphabet tables as printed by the implementation (dump line)"""
    def __init__(self, line):
        d = kv(line)
        self.type, self.K, self.Kp = int(d["type"]), int(d["K"]), int(d["Kp"])
        self.sym = unhex(d["sym"])
        self.inmap = list(unhex(d["inmap"]))
        dg = unhex(d["degen"])
        self.degen = [list(dg[x * self.K:(x + 1) * self.K]) for x in range(self.Kp)]
        self.ndegen = [int(v) for v in d["ndegen"].split(",")]
        self.comp = None if d["comp"] == "null" else list(unhex(d["comp"]))

    def code(self, c):
        """spec of the digitised code of input byte c: None = ignored, (code, valid)"""
        x = self.inmap[c] if c < 128 else ILLEGAL
        if x < self.Kp: return (x, True)
        if x == IGNORED: return None
        return (self.Kp - 3, False)

    def is_residue(self, x):
        return x < self.K or (self.K < x < self.Kp - 2)


def check_std_tables(name, a):
    """independent table properties of a standard alphabet; returns error text or None"""
    sym, K = STD[name]
    if a.sym.decode("latin1") != sym or a.K != K or a.Kp != len(sym):
        return "symbol string / sizes are %r K=%d Kp=%d" % (a.sym, a.K, a.Kp)
    Kp = a.Kp
    if sym[K] != "-" or sym[Kp - 1] != "~" or sym[Kp - 2] != "*" or sym[Kp - 3] not in "NX":
        return "symbol order convention broken"
    canon = sym[:K]
    sets = AMINO_SETS if name == "amino" else None
    for x in range(Kp):
        s = sym[x]
        if name in ("dna", "rna"):
            want = set(NUC_SETS["T" if s == "U" else s].replace("T", sym[3]))
        elif name == "amino":
            want = set(sets[s])
        else:
            want = set(canon) if x == Kp - 3 else ({s} if x < K else set())
        got = {canon[y] for y in range(K) if a.degen[x][y]}
        if got != want:
            return "degeneracy set of %r is %s, documented %s" % (s, sorted(got), sorted(want))
        if a.ndegen[x] != len(want):
            return "ndegen[%r] = %d, set has %d members" % (s, a.ndegen[x], len(want))
    # input map: every symbol maps to itself, case-insensitively; synonyms; everything else illegal
    want_map = {}
    for x, s in enumerate(sym):
        want_map[ord(s)] = x
        if s.isalpha(): want_map[ord(s.lower())] = x; want_map[ord(s.upper())] = x
    for c, t in SYN[name].items():
        want_map[ord(c)] = sym.index(t)
        if c.isalpha(): want_map[ord(c.lower())] = sym.index(t)
    for c in range(128):
        w = want_map.get(c, ILLEGAL)
        if a.inmap[c] != w:
            return "inmap[%r] = %d, documented %d" % (chr(c), a.inmap[c], w)
    if name in ("dna", "rna"):
        if a.comp is None or len(a.comp) != Kp:
            return "no complement table"
        cmap = dict(NUC_COMP); cmap = {k.replace("T", sym[3]): v.replace("T", sym[3]) for k, v in cmap.items()}
        for x in range(Kp):
            cx = a.comp[x]
            if not (0 <= cx < Kp) or a.comp[cx] != x:
                return "complement is not an involution at %r" % sym[x]
            got = {canon[y] for y in range(K) if a.degen[cx][y]}
            want = {cmap[canon[y]] for y in range(K) if a.degen[x][y]}
            if got != want:
                return "complement of %r is %r whose set %s is not the complemented set %s" % (sym[x], sym[cx], sorted(got), sorted(want))
            if (x >= K and not a.is_residue(x)) and cx != x:
                return "complement moves the non-residue symbol %r" % sym[x]
    elif a.comp is not None:
        return "non-nucleic alphabet has a complement table"
    return None


class C08(Prop):
    id = "C08"
    lean_modules = ["EaselModel.Props.C08"]
    lean_exe = "c08_driver"
    harness = "h_alphabet.c"
    theorems = ["EaselModel.Props.C08." + t for t in (
        "ctor_reproduces_tables", "constants_agree", "symbol_order", "inmap_canonical", "degen_is_iupac", "ndegen_is_card",
        "complement_involutive", "complement_complements_set", "std_wf",
        "digitize_spec", "digitize_status", "digitize_sentinels", "textize_spec",
        "digitize_textize_digitize", "textize_canonical_spelling", "revcomp_spec", "revcomp_involutive",
        "avg_score_is_mean", "avg_score_nonresidue", "expect_score_is_weighted_mean", "count_splits_equally", "degen_set_examples",
        "custom_create_wf", "custom_alphabets_wf", "custom_digitize_textize_digitize",
        "dsqcat_spec", "dsqcat_appends_digitization", "std_inmap_clean", "sq_text_complement_table", "sq_text_revcomp_agrees", "cdealign_spec", "xdealign_spec", "custom_create_wfdegen", "custom_inmap_ops_keep_degen", "match_formula", "match_easy_cases", "setdegeneracy_keeps_ndegen", "avg_scvec_spec", "guess_alphabet_basic",
        "guess_never_on_small", "guess_dna_guarantee", "guess_rna_guarantee", "guess_amino_guarantee", "guess_amino_iff_giveaway",
        "guess_aaonly_decides", "sq_guess_counts",
        "type_roundtrip", "type_unknown_strings", "type_encode_sound", "type_mem_agrees", "type_validate", "type_tables_regenerated",
        "sq_text_switch_regenerated", "sq_text_revcomp_every_symbol", "sq_text_switch_covers_alphabet",
        "validateseq_spec", "sq_digitize_spec", "convert_degen2x_spec", "expect_scvec_spec",
        "custom_history_wf", "custom_history_order", "custom_create_setequiv_status", "custom_setdegeneracy_caseins_status",
        "sq_add_residue_spec", "sq_count_residues_spec", "sq_checksum_ascii",
        "guess_spec", "msa_guess_spec", "msa_vote_spec", "round_half_away", "iavg_score_rounding", "iexpect_score_rounding",
        "iscvec_spec", "sq_count_residues_text_spec", "textizen_spec", "dsqrlen_dsqdup_spec", "count_nondegenerate_codes",
        "custom_rejected_calls", "custom_setdegeneracy_post", "custom_ignored_caseins_post",
        "char_classes_regenerated", "guess_probe_regenerated", "sq_guess_counts_all", "sq_copy_spec", "match_uniform",
        "fetch_from_msa_modes_agree", "strdealign_spec", "std_gapchars_ok", "get_from_msa_ss_buffer_safe",
        "sq_grow_covers", "sq_growto_covers", "sq_object_grow_keeps_invariant", "sq_object_digitize_textize", "sq_revcomp_markup",
        "sq_object_copy_spec", "std_case_insensitive", "custom_history_case_insensitive", "custom_history_wfdegen",
        "sq_checksum_detects_substitution", "sq_checksum_steps_injective", "msa_guess_both_forms", "msa_mixed_probe_regenerated", "createdsq_allocation_dsqlen", "sq_object_append_spec", "sq_object_roundtrip", "sq_copy_reused_destination", "sq_copy_reused_probe_regenerated",
    )]
    claimed = True
    technique = ("Lean 4 proof: table theorems closed by `decide` over the whole regenerated tables (vs a hand-written IUPAC statement), "
                 "conversion-loop theorems by induction for every well-formed alphabet and every byte string; "
                 "exact differential correspondence of the executable model with the ASan/UBSan-built code")
    level_text = ("Table theorems closed by `decide` over the whole tables regenerated from the working tree on every run: the hand model of "
                  "create_dna/rna/amino/coins/dice reproduces every dumped field; symbol order convention; all 128 input-map entries = canonical "
                  "upper-case synonym-free symbol; degen[x] = the hand-written IUPAC set and ndegen[x] = its size; complement is an involution and "
                  "complements the set. Theorems for EVERY alphabet and EVERY byte string (induction, no length bound): Digitize = sentinel + code of "
                  "each non-ignored character + sentinel with eslEINVAL iff some character is outside the alphabet ('any' substituted, bytes >= 0x80 "
                  "included); Textize spells codes; Digitize.Textize.Digitize = Digitize for well-formed alphabets; textize(digitize s) = canonical "
                  "spelling for the 5 built-in alphabets; the in-place swap loop of esl_abc_revcomp = reverse+complement and is an involution; over Q the AvgScore/ExpectScore loops compute the (weighted) mean over the degeneracy set and Count splits the weight equally; every custom alphabet built by CreateCustom + SetEquiv/SetCaseInsensitive/SetDegeneracy/SetIgnored is well-formed (so all conversion theorems apply to it), and CreateCustom's degeneracy tables are well-formed; esl_abc_dsqcat_noalloc = appending the digitisation (never the eslEINCONCEIVABLE exception for a clean input map); the in-place CDealign/XDealign loops keep exactly the columns of non-gap non-missing reference positions; the text-mode switch of esl_sq_ReverseComplement (regenerated from the code on all 256 bytes) agrees with the digital complement table for every symbol in both cases; "
                  "esl_abc_GuessAlphabet: an answer DNA/RNA/amino implies the documented thresholds on the counted composition, never an answer on <= 10 residues, amino iff an amino-only letter occurs (the third documented rule is unreachable); Encode/DecodeType round trip, unknown strings => eslUNKNOWN, ValidateType; "
                  "ValidateSeq status/count/first position/message; esl_sq_Digitize keeps n; ConvertDegen2X; Avg and Expect ScVec fill exactly the degenerate slots; "
                  "WF and the order convention are invariants of every history of constructor calls, with the documented statuses of each call; XAddResidue/CAddResidue never store outside the allocation; CountResidues = sum of equal splits. "
                  "Round 4: esl_abc_GuessAlphabet IS the documented decision list of the 26 counts (guess_spec); the counting loop of esl_sq_GuessAlphabet on every 8-bit string counts the shortest prefix with 10001 letters; esl_msa_GuessAlphabet = vote over the rows, else the pooled composition, never a fault; "
                  "esl_abc_IAvgScore/IExpectScore = the exact (weighted) mean rounded half away from zero (unique nearest integer, ties to the larger magnitude, odd), I*ScVec fill exactly the degenerate slots; text-mode esl_sq_CountResidues for every byte string (bytes outside the alphabet skipped, eslERANGE iff start<0 or start+L>n, equal to the digital count on valid text); "
                  "esl_abc_TextizeN for every window (inside: L symbols and no NUL; reaching a sentinel: NUL there); dsqrlen, dsqdup/dsqcpy, Count on canonical/gap/nonresidue/missing; a rejected SetDegeneracy/SetCaseInsensitive leaves exactly the effect of the accepted prefix of its argument, accepted SetDegeneracy/SetIgnored/SetCaseInsensitive satisfy their documented postconditions; "
                  "esl_sq_Copy in all four text/digital combinations converts faithfully and leaves n = sequence length (text->digital refuses ignored/invalid characters); "
                  "esl_sq_FetchFromMSA: text-mode dealigning (esl_strdealign, \"-_.~\") and digital dealigning (XDealign/CDealign) keep the same columns, so fetching commutes with digitising (sequence, n, SS line); Match with the uniform background = |S(x) cap S(y)|/(|S(x)||S(y)|); "
                  "no history of esl_sq_GetFromMSA calls on a reused ESL_SQ copies past sq->ss; "
                  "the character-class macros esl_abc_{C,X}Is* on all 256 chars/codes of the 5 alphabets and 78 GuessAlphabet probe compositions are regenerated from the tree and closed by decide. "
                  "Round 6: esl_sq_Grow for ANY n (the keep-doubling loop): nsafe >= 1, new allocation = n(+1)+nsafe = old size doubled k times, never shrinks; esl_sq_GrowTo; "
                  "an ESL_SQ as an object with ss + xr[] markup and per-buffer allocation sizes: Digitize / Textize / Copy (4 mode combinations) / appending a residue keep every markup "
                  "memmove/strcpy/store inside its allocation and keep the markup strings, start, end; ReverseComplement drops ss and ALL xr (nxr = 0) and swaps start/end, eslEINCOMPAT leaves "
                  "the object untouched; both case entries of all 26 letters are equal in the 5 regenerated built-in tables; for custom alphabets case-insensitivity holds after an accepted "
                  "SetCaseInsensitive for every earlier history and survives every later call that names no letter (a later letter synonym breaks it: proved); ndegen = |set| after every clean "
                  "history incl. rejected calls; esl_sq_Checksum (exact uint32 model): every step is a bijection of the state and injective in the residue, so any single-residue substitution "
                  "changes the checksum (text and digital); CreateDsq's strlen+2 allocation suffices and dsqlen = number of non-ignored characters; esl_msa_GuessAlphabet in its documented and its "
                  "fall-through form, the form the tree has being regenerated. "
                  "Round 6b: esl_sq_Copy into ANY consistent reused destination (and esl_sq_Reuse) leaves a consistent object with exactly the source's markup, whatever the destination held and "
                  "whatever the answer (repaired form; the stale form, where a source without ss left the previous sequence's ss/xr in place, is kept in the model with a proved counter-example, and the "
                  "form the tree has is regenerated: sqCopyReusedProbe); esl_abc_revcomp / esl_sq_ReverseComplement compared exactly at L = 0, 1, 2 on every symbol and every ordered pair of DNA and RNA. "
                  "The hand model is tied to the tree by an exact differential run (all single bytes, random strings up to 10^4, custom alphabets, ESL_SQ objects at the allocation boundaries).")
    level_note = ("Trusted: Lean kernel + propext/Classical.choice/Quot.sound; table dumper; fidelity of the hand model is checked (not proved) by the "
                  "differential run; score/count averaging is compared bit-exactly (binary64/binary32) and monitored against the exact mean; "
                  "esl_abc_GuessAlphabet: theorems are about the integer form of the 2% tests (50*d <= n), which the driver runs next to the "
                  "binary64 form on every composition (agreement for |n| < 2^40 is an IEEE fact, not a theorem); "
                  "the integer-score theorems are over Q (the code sums in binary32 and adds 0.5 in binary64: the driver runs exactly that and is compared "
                  "with the code; the monitor checks the code's answer against the exact round-half-away mean for |scores| <= 10^6); esl_sq_Checksum is modelled at uint32 exactly (theorem: every single-residue substitution changes it); text-mode esl_sq_CountResidues needs sq->abc set by the caller "
                  "(NULL for ordinary text sequences: the harness sets it as utest_CountResidues does). "
                  "esl_msa_GuessAlphabet: the header documents amino+nucleic rows as indeterminate; the code fell through to the pooled pass and answered amino "
                  "(not part of C08's statement, but a documented contract: repaired in b4e537e). The model carries both forms; which one the tree has is "
                  "regenerated on every run (msaMixedProbe) and the monitor states the documented vote independently.")
    diverge_is_violation = True
    trusted_base = ["table dumper translate/tables_alphabet.py (prints the fields of esl_alphabet_Create() of the working tree)",
                    "hand model of esl_alphabet.c conversion loops and constructors tied by exact differential run (h_alphabet.c, ASan+UBSan)",
                    "Lean compiler/runtime for the executable driver; gcc; IEEE-754 (scores compared bit-exactly, theorems over Q)"]
    assumptions = ["custom alphabets: symbols are non-NUL 7-bit characters (the C constructor does not check; it would write outside inmap[])",
                   "digital sequences handed to Textize/revcomp/dealign contain valid codes (< Kp); other codes are an out-of-bounds read in C = fault in the model",
                   "allocation never fails (eslEMEM paths not modelled)",
                   "esl_sq_Copy: sequence, n, ss/xr markup, salloc, start/end of the four text/digital combinations into a fresh AND into a reused destination (with/without esl_sq_Reuse; names, offsets, C/W/L are not)",
                   "esl_sq_FetchFromMSA / esl_sq_GetFromMSA: one-row alignments, sequence + SS line + the allocation size of sq->ss across two calls on a reused object (no #=GR markup, names, accessions)",
                   "esl_msa_GuessAlphabet: text-mode alignments (a digital alignment answers msa->abc->type: not modelled)",
                   "esl_sq_Digitize/Textize/ReverseComplement/Copy/Grow/GrowTo on an ESL_SQ: sequence, ss line, extra residue markup (xr, all entries non-NULL), salloc, start/end (names, offsets, C/W/L not modelled)",
                   "esl_abc_Match: comparisons involving gap/nonresidue/missing/invalid codes return 0.0 (repaired in the tree: the guard tested x twice)",
                   "esl_alphabet_SetEquiv(a, sym, '\\0') is outside the generator (strchr finds the terminating NUL: returns eslOK and maps sym to the invalid code Kp)",
                   "esl_abc_dsqcat with an explicit length treats a NUL byte as inmap[0] = 'unknown' with eslOK (documented: inmap[0] is special); mirrored, not judged"]
    rule = ("corpus = every single byte 0..255 through digitize/dsqcat/validateseq/text CountResidues/sq+msa GuessAlphabet on each built-in alphabet, "
            "exact .5 ties of the integer scores on every code, every TextizeN window of a 4-residue sequence, the 10000-letter cutoffs, ESL_SQ objects with ss+xr markup of "
            "0/1/2/254..257/511/512 residues x 4 constructions x 15 scripts (Digitize/Textize/ReverseComplement/Grow/GrowTo/append/Copy) on each built-in alphabet; "
            "cases = one alphabet (3 standard + coins/dice + random custom alphabets) and a history of conversions on strings of "
            "valid/synonym/lower-case/ignored/invalid/8-bit characters; non-trivial = a case with at least one successful digitisation "
            "of >= 1 residue followed by another operation; distinct by output trace")
    quick_budget_s = 60

    # ------------------------------------------------------------------------------------------------------------
    def generated(self, ctx):
        g, tabs, consts = tables_alphabet.generate(ctx)
        self._tabs = tabs
        return g

    # ------------------------------------------------------------------------------------------------------------
    def corpus(self, ctx):
        out = []
        for name in STD:
            ops = ["abc type=%s" % name]
            for c in range(1, 128):
                ops.append("digitize hex=%02x" % c)
                ops.append("textize")
            ops += ["dsqcat hex=%02x L=known n=known" % c for c in range(0, 256)]
            out.append({"name": "allbytes-%s" % name, "ops": ops, "sticky": 1})
            ops = ["abc type=%s" % name] + ["digitize hex=%02x" % c for c in range(128, 256)]
            out.append({"name": "highbytes-%s" % name, "ops": ops, "sticky": 1})
            sym = STD[name][0]
            ops = ["abc type=%s" % name]
            for x in range(len(sym)):
                K = STD[name][1]
                sc = [float(i + 1) for i in range(K)]
                ops.append("davg x=%d sc=%s" % (x, ",".join(dbits(v) for v in sc)))
                ops.append("dcount x=%d wt=%s sc=%s" % (x, dbits(1.0), ",".join(dbits(0.0) for _ in range(K + 1))))
                ops.append("iavg x=%d sc=%s" % (x, ",".join(str(3 * i - 7) for i in range(K))))
            out.append({"name": "scores-%s" % name, "ops": ops, "sticky": 1})
        tops = []
        for nm in (b"amino", b"rna", b"dna", b"coins", b"dice", b"custom", b"unknown", b"RNA", b"DNA", b"Amino", b"CUSTOM", b"", b"dnax", b"dn"):
            tops += ["enctype hex=%s" % hx(nm), "enctypemem hex=%s" % hx(nm)]
        tops += ["dectype t=%d" % t for t in range(-2, 10)] + ["valtype t=%d" % t for t in range(-2, 10)]
        out.append({"name": "type-codes", "ops": tops, "sticky": 0})
        for name in STD:
            sym, K = STD[name]
            ops = ["abc type=%s" % name]
            ops += ["sqccount hex=%02x start=0 L=1" % c for c in range(1, 256)]
            ops += ["validateseq hex=%02x" % c for c in range(0, 256)]      # (a NUL byte cuts the message short on both sides)
            ops += ["validateseq hex=41%02x43 noabc=1" % c for c in range(0, 256, 5)]
            out.append({"name": "allbytes2-%s" % name, "ops": ops, "sticky": 1})
            # integer scores: exact ties (mean = k + 1/2, both signs) on every code; window of TextizeN at and past the sentinels
            ops = ["abc type=%s" % name]
            for x in range(len(sym)):
                for base in ([1, 0, 2, 0], [-1, 0, -2, 0], [0, 0, 1, 0], [0, 0, -1, 0], [3, 3, 3, 4], [-3, -3, -3, -4], [7, -7, 1, -2]):
                    sc = [base[i % 4] * (1 + i // 4) for i in range(K)]
                    ops.append("iavg x=%d sc=%s" % (x, ",".join(map(str, sc))))
                    ops.append("iexpect x=%d sc=%s p=%s" % (x, ",".join(map(str, sc)), ",".join(fbits(1.0 / K) for _ in range(K))))
            ops.append("iscvec sc=%s" % ",".join(str((-1) ** i * (2 * i + 1)) for i in range(len(sym))))
            ops.append("digitize hex=%s" % hx(sym[:4].encode()))
            for off in range(0, 6):
                for L in range(0, 8):
                    ops.append("textizen off=%d L=%d" % (off, L))
            ops += ["dsqdup L=known", "dsqdup L=unknown", "dsqcpy", "dsqnull", "dsqdup L=unknown"]
            out.append({"name": "ties-windows-%s" % name, "ops": ops, "sticky": 1})
        for name in STD:
            ops = ["abc type=%s" % name] + ["sqcopy from=text to=digital hex=41%02x43" % c for c in range(1, 256)]
            ops += ["sqcopy from=digital to=text hex=%s" % hx(bytes(range(len(STD[name][0])))), "sqcopy from=digital to=digital hex=%s" % hx(bytes(range(len(STD[name][0])))),
                    "sqcopy from=digital to=digital other=1 hex=0001", "sqcopy from=text to=text hex=%s" % hx(bytes(range(1, 256)))]
            out.append({"name": "sqcopy-%s" % name, "ops": ops, "sticky": 1})
        for name in ("dna", "amino"):
            ops = ["abc type=%s" % name] + ["sqfetch mode=text row=41%02x43 ss=3c2e3e" % c for c in range(1, 256)]
            ops += ["sqfetch mode=digital row=00%02x01 ss=3c2e3e" % x for x in range(len(STD[name][0]))]
            out.append({"name": "sqfetch-allbytes-%s" % name, "ops": ops, "sticky": 1})
        # regression (fixed in 4807e60): a reused ESL_SQ receiving a longer SS line than the first time overflowed sq->ss
        out.append({"name": "sqget2-ss-reuse", "sticky": 1, "ops": ["abc type=dna"] + [
            "sqget2 mode=%s row1=%s row2=%s ss1=%s ss2=%s" % (m, hx(r1), hx(r2), hx(b"." * len(r1)), hx(b"<" * len(r2)))
            for m, r1, r2 in (("text", b"A" * 10, b"C" * 100), ("digital", bytes([0] * 10), bytes([1] * 100)), ("text", b"A", b"C-"),
                              ("text", b"A" * 10, b"C" * 255), ("digital", bytes([0] * 10), bytes([1, 4] * 127)), ("text", b"A" * 10, b"C" * 256))]})
        # regression (fixed in 6b1a313): esl_sq_Copy text -> digital with a character the alphabet ignores left dst->n > the digital length
        out.append({"name": "sqcopy-ignored", "ops": ["abc type=dna", "ignored chars=2009", "dump", "sqcopy from=text to=digital hex=%s" % hx(b"AC GT ACGT"),
                                                       "sqcopy from=text to=digital hex=%s" % hx(b"ACGTACGT"), "sqcopy from=text to=text hex=%s" % hx(b"AC GT ACGT")],
                    "sticky": 2})
        # an ESL_SQ with ss + xr markup at the allocation boundaries, every mode change (round 6)
        import random as _random
        for name in STD:
            sym, K = STD[name]; Kp = len(sym); r6 = _random.Random(606); pools = self.std_pools(name)
            ops = ["abc type=%s" % name]
            for n in (0, 1, 2, 254, 255, 256, 257, 511, 512):
                for dig in (False, True):
                    for add in (False, True):
                        scripts = (["a:%d" % (258 - n if n < 258 else 3), "t", "g"], ["t", "a:300", "d"], ["t", "d", "g", "g"], ["r", "r"], ["t", "c:digital", "t"], ["c:text", "d", "r"], ["to:%d" % (n + 1), "t", "d"], ["g", "t", "to:%d" % (2 * n + 7), "d", "t"]) if dig else \
                                  (["a:%d" % (257 - n if n < 257 else 3), "d", "g"], ["d", "a:300", "t"], ["d", "t", "g", "g"], ["r", "d"], ["d", "r", "t"], ["c:digital", "t", "c:text"], ["c:text", "d", "c:digital"], ["to:%d" % n, "d", "to:%d" % (n + 1), "t"], ["g", "d", "d", "t", "t"])
                        for sc in scripts:
                            ops.append(self.obj_op(r6, pools, K, Kp, name in ("dna", "rna"), n=n, script=sc, dig=dig, add=add, ss=True, nxr=r6.choice([0, 1, 2])))
            out.append({"name": "sqobj-boundaries-%s" % name, "ops": ops, "sticky": 1})
        # regression (fixed in cdfb777): esl_sq_Copy text -> digital of an object with xr markup but no ss line left dst->xr[x] uninitialised
        out.append({"name": "sqcopy-xr-without-ss", "sticky": 1, "ops": ["abc type=dna",
            "sqobj init=text via=from hex=%s xr=%s script=c:digital" % (hx(b"ACGT"), hx(b"1234")),
            "sqobj init=text via=add hex=%s xr=%s,%s script=c:digital,t" % (hx(b"ACGTNN"), hx(b"123456"), hx(b"<<..>>")),
            "sqobj init=text via=from hex=%s ss=%s xr=%s script=c:digital" % (hx(b"ACGT"), hx(b"<..>"), hx(b"1234"))]})
        # round 6b: esl_abc_revcomp / esl_sq_ReverseComplement at L = 0, 1, 2 on EVERY symbol of DNA and RNA (a single residue of a
        # non-self-complementary symbol is the odd middle element; every ordered pair is the one swap), digital and text mode, both cases
        for name in ("dna", "rna"):
            sym = STD[name][0]; Kp = len(sym)
            ops = ["abc type=%s" % name, "digitize hex=-", "revcomp", "revcomp n=0", "sqobj init=digital via=from hex=- script=r", "sqobj init=text via=from hex=- script=r", "sqrevtext hex=-"]
            for x in range(Kp):
                ops += ["digitize hex=%02x" % ord(sym[x]), "revcomp", "revcomp", "revcomp n=0", "revcomp n=1",
                        "sqobj init=digital via=from hex=%02x ss=3c script=r" % x, "sqobj init=digital via=add hex=%02x script=r,r,t" % x]
                for c in {sym[x], sym[x].lower()}:
                    ops += ["sqrevtext hex=%02x" % ord(c), "sqobj init=text via=from hex=%02x xr=31 script=r,d" % ord(c), "sqroundtrip hex=%02x rc=1" % ord(c)]
            for c in "IiXx._Uu":
                ops += ["sqrevtext hex=%02x" % ord(c), "sqroundtrip hex=%02x rc=1" % ord(c)]
            for x in range(Kp):
                for y in range(Kp):
                    ops += ["digitize hex=%02x%02x" % (ord(sym[x]), ord(sym[y])), "revcomp"]
                    if (x + y) % 3 == 0: ops += ["revcomp n=1", "sqobj init=digital via=from hex=%02x%02x script=r,t" % (x, y), "sqrevtext hex=%02x%02x" % (ord(sym[x]), ord(sym[y].lower()))]
            out.append({"name": "revcomp-L012-%s" % name, "ops": ops, "sticky": 1})
        # round 6b (stale-markup defect found here, repaired in the tree): esl_sq_Copy into a REUSED destination (with / without esl_sq_Reuse in between; the source losing its markup, changing length and mode)
        for name in ("dna", "amino"):
            ops = ["abc type=%s" % name]
            for (ini, hexs, ssv, xrv) in (("text", hx(b"ACGTACGT"), hx(b"<<....>>"), hx(b"12345678")), ("digital", "0001020300010203", hx(b"<<....>>"), hx(b"12345678"))):
                for sc in ("p:text,r,p:text", "p:digital,r,p:digital", "p:text,R,r,p:text", "p:digital,R,r,p:digital", "p:digital,a:300,p:digital,r,p:digital",
                           "p:text,a:300,p:text", "p:digital,t,p:digital,d,p:digital", "p:text,d,p:text,R,p:text", "r,p:digital,p:digital"):
                    ops.append("sqobj init=%s via=from hex=%s ss=%s xr=%s script=%s" % (ini, hexs, ssv, xrv, sc))
                    ops.append("sqobj init=%s via=add hex=%s ss=%s script=%s" % (ini, hexs, ssv, sc))
                    ops.append("sqobj init=%s via=from hex=%s xr=%s script=%s" % (ini, hexs, xrv, sc))
            ops.append("sqobj init=text via=from hex=%s ss=%s script=p:digital,p:digital" % (hx(b"AC!T"), hx(b"<..>")))
            out.append({"name": "sqcopy-reused-dst-%s" % name, "ops": ops, "sticky": 1})
        # regression (fixed in fb9db3f): esl_sq_CreateDigitalFrom(..., n = -1 "unknown", ...) set end = W = L = -1
        out.append({"name": "createdigitalfrom-unknown-length", "sticky": 1, "ops": ["abc type=dna",
            "sqobj init=digital via=from len=unknown hex=00010203 script=-", "sqobj init=digital via=from len=unknown hex=- script=t",
            "sqobj init=digital via=from len=unknown hex=0001020304 ss=%s script=r,t" % hx(b"<...>")]})
        # a NUL byte ends the C string handed to Digitize / CreateDsq
        for name in STD:
            out.append({"name": "nul-inside-%s" % name, "sticky": 1, "ops": ["abc type=%s" % name] +
                        ["%s hex=%s" % (o_, h_) for o_ in ("digitize", "createdsq") for h_ in ("00", "4100", "410043", "41430047", "2100ff")] + ["dsqlen", "textize"]})
        gops = []
        for c in range(1, 256):
            gops.append("sqguess hex=%s" % hx(bytes([c]) * 12))
            gops.append("msaguess rows=%s,%s" % (hx(bytes([c]) * 6), hx(bytes([c]) * 6)))
            gops.append("msaguess rows=%s,%s" % (hx(b"ACGTACGTACGT" + bytes([c])), hx(b"ACGUACGUACGU" + bytes([c]))))
        out.append({"name": "guess-allbytes", "ops": gops, "sticky": 0})
        # the 10000-letter cutoff of the pooled pass hides later rows: rows are classified one by one over their own first 10001
        # letters, the pooled pass stops inside the first row (documented vote: amino + nucleic rows = undecided -> pooled pass)
        nuc_r, nuc_d, aa = b"ACGU" * 2501, b"ACGT" * 2501, (b"ACDEFGHIKLMNPQRSTVWY" * 501)[:10004]
        mops = ["msaguess rows=%s" % ",".join(hx(r_) for r_ in rows) for rows in
                ([nuc_r, aa], [aa, nuc_r], [nuc_d, aa], [nuc_d, nuc_r], [nuc_r, nuc_d], [b"N" * 10004, aa], [nuc_r[:5000], nuc_r[:5000], aa[:5000]])]
        out.append({"name": "msa-guess-cutoff", "ops": mops, "sticky": 0})
        # regression (fixed in 9b7e276): the pooled pass of esl_msa_GuessAlphabet stored to ct[26] for a '['
        out.append({"name": "msa-guess-bracket", "ops": ["msaguess rows=%s,%s" % (hx(b"AC[GT-"), hx(b"ACGGT-")),
                                                          "msaguess rows=%s" % hx(b"[[[[acgt[[[")], "sticky": 0})
        out.append({"name": "utest-custom", "sticky": 1, "ops": [
            "custom sym=%s K=20" % hx(b"ACDEFGHIKLMNPQRSTVWY-BJZX*~"), "equiv s=79 c=75", "equiv s=85 c=83", "caseins",
            "degen c=90 ds=%s" % hx(b"QE"), "dump", "digitize hex=%s" % hx(b"AaU-~Z"), "textize", "redigitize"]})
        return out

    # ------------------------------------------------------------------------------------------------------------
    def rand_string(self, rng, pools, n, hb):
        """pools: dict kind -> bytes; mostly valid, some of every other kind"""
        mode = rng.random()
        w = {"valid": 1.0, "lower": 0.3, "syn": 0.1, "gap": 0.15, "ignored": 0.1, "invalid": 0.0, "high": 0.0}
        if mode < 0.5: pass
        elif mode < 0.8: w["invalid"] = 0.02; w["high"] = 0.02 if hb else 0.0
        else: w["invalid"] = 0.3; w["high"] = 0.3 if hb else 0.0
        kinds = [k for k in w if w[k] > 0 and pools.get(k)]
        ws = [w[k] for k in kinds]
        out = bytearray()
        while len(out) < n:
            k = rng.choices(kinds, ws)[0]
            run = 1 if rng.random() < 0.7 else rng.randrange(1, 12)
            for _ in range(run):
                out.append(rng.choice(pools[k]))
        return bytes(out[:n])

    def std_pools(self, name, ignored=b""):
        sym, K = STD[name]
        up = sym.encode()
        valid = bytes(c for c in up if c not in b"-*~")
        lower = bytes(c for c in valid.lower() if c not in valid)
        syn = "".join(SYN[name].keys()).encode()
        syn = syn + bytes(c for c in syn.lower() if c not in syn)
        allowed = set(up) | set(up.lower()) | set(syn) | set(ignored)
        invalid = bytes(c for c in range(1, 128) if c not in allowed)
        return {"valid": valid, "lower": lower, "syn": syn, "gap": b"-*~", "ignored": ignored, "invalid": invalid,
                "high": bytes(range(128, 256))}

    def rand_len(self, rng, big):
        r = rng.random()
        if r < 0.08: return 0
        if r < 0.2: return rng.randrange(1, 4)
        if r < 0.75: return rng.randrange(1, 80)
        if r < 0.97 or not big: return rng.randrange(80, 1200)
        return rng.randrange(5000, 10001)

    def seq_ops(self, rng, pools, K, Kp, hb, big, has_comp, nlen):
        """history of conversions on the current alphabet"""
        ops = []
        known_len = None
        cur_len = None  # length of current dsq if known to python (unknown: None)
        for _ in range(nlen):
            r = rng.random()
            if r < 0.30 or cur_len is None:
                n = self.rand_len(rng, big)
                s = self.rand_string(rng, pools, n, hb)
                ops.append(("digitize" if rng.random() < 0.8 else "createdsq") + " hex=%s" % hx(s))
                cur_len = -1
                ign = set(pools.get("ignored", b""))
                known_len = len([c for c in s.split(b"\0")[0] if c not in ign])
                ops.append("dsqlen")
                if rng.random() < 0.6:
                    ops += ["textize", "redigitize"]
                if rng.random() < 0.35:
                    # dealign an annotation string / a second digital sequence against the current one (gaps, ~ removed)
                    if rng.random() < 0.5:
                        ops.append("cdealign s=%s" % hx(bytes(rng.randrange(33, 127) for _ in range(known_len))))
                    else:
                        ops.append("xdealign x=%s" % hx(bytes([255] + [rng.randrange(0, Kp) for _ in range(known_len)] + [255])))
            elif r < 0.40:
                ops.append("textize")
            elif r < 0.50:
                ops.append("revcomp")
                if rng.random() < 0.7: ops.append("revcomp")
            elif r < 0.55:
                ops.append("revcomp n=%d" % rng.randrange(0, 6))
            elif r < 0.62:
                if known_len is not None and cur_len == -1 and rng.random() < 0.6:
                    # window starting at / next to either sentinel, reaching exactly to, one short of, or past the closing sentinel
                    off = rng.choice([0, 1, known_len, known_len + 1, max(0, known_len - 1), rng.randrange(0, known_len + 2)])
                    L = max(0, known_len + 1 - off + rng.choice([-2, -1, 0, 1, 2, 5]))
                    ops.append("textizen off=%d L=%d" % (off, L))
                else:
                    ops.append("textizen off=%d L=%d" % (rng.randrange(0, 4), rng.randrange(0, 12)))
            elif r < 0.66:
                ops.append("dsqrlen")
            elif r < 0.68:
                ops.append(rng.choice(["dsqdup L=known", "dsqdup L=unknown", "dsqcpy"]))
            elif r < 0.73:
                ops.append("degen2x")
            elif r < 0.90:
                cur_len = -2      # the length python knew is stale after an append
                if rng.random() < 0.1: ops.append("dsqnull")
                n = self.rand_len(rng, False)
                p2 = dict(pools); p2["high"] = bytes(range(128, 256))
                s = self.rand_string(rng, p2, n, True)
                nk = "known"
                if rng.random() < 0.15: nk = "unknown"
                elif rng.random() < 0.05 and n > 0:
                    b = bytearray(s); b[rng.randrange(n)] = 0; s = bytes(b)
                if rng.random() < 0.04:
                    ops.append("dsqcat snull=1 L=%s n=unknown" % rng.choice(["known", "unknown"]))
                elif rng.random() < 0.06:
                    m = [rng.choice([254, 254, 253, rng.randrange(0, Kp), rng.randrange(0, Kp)]) for _ in range(128)]   # valid codes only
                    m[0] = Kp - 3
                    if rng.random() < 0.5: m[rng.choice(s) % 128 if s else 65] = rng.choice([255, 252, 251, 250, 200, 128])
                    ops.append("dsqcat hex=%s L=known n=known map=%s" % (hx(s), hx(m)))
                else:
                    ops.append("dsqcat hex=%s L=%s n=%s" % (hx(s), rng.choice(["known", "known", "unknown"]), nk))
            else:
                ops.append("dsqlen")
        return ops

    def score_ops(self, rng, K, Kp, safe_x):
        ops = []
        def dval():
            r = rng.random()
            if r < 0.4: return float(rng.randrange(-20, 21))
            if r < 0.8: return rng.uniform(-10, 10)
            if r < 0.9: return rng.choice([0.0, -0.0, 1e-300, 1e300, -1e300, 1.0, 0.1])
            return rng.uniform(-1, 1) * 10 ** rng.randrange(-30, 30)
        def prob(n):
            p = [rng.random() + 1e-3 for _ in range(n)]
            if rng.random() < 0.3:
                for i in range(n):
                    if rng.random() < 0.3: p[i] = 0.0
            s = sum(p) or 1.0
            return [v / s for v in p]
        for _ in range(rng.randrange(1, 8)):
            r = rng.random()
            x = rng.choice(safe_x) if rng.random() < 0.9 else rng.randrange(0, Kp)
            if r < 0.2:
                xx = x if rng.random() < 0.9 else rng.randrange(Kp, 256)
                ops.append("davg x=%d sc=%s" % (xx, ",".join(dbits(dval()) for _ in range(K))))
            elif r < 0.35:
                ops.append("favg x=%d sc=%s" % (x, ",".join(fbits(dval()) for _ in range(K))))
            elif r < 0.5:
                ops.append("iavg x=%d sc=%s" % (rng.choice(safe_x), ",".join(str(rng.randrange(-1000, 1000)) for _ in range(K))))
            elif r < 0.6:
                ops.append("dexpect x=%d sc=%s p=%s" % (x, ",".join(dbits(dval()) for _ in range(K)), ",".join(dbits(v) for v in prob(K))))
            elif r < 0.68:
                ops.append("fexpect x=%d sc=%s p=%s" % (x, ",".join(fbits(dval()) for _ in range(K)), ",".join(fbits(v) for v in prob(K))))
            elif r < 0.75:
                p = [v + 1e-3 for v in prob(K)]
                ops.append("iexpect x=%d sc=%s p=%s" % (rng.choice(safe_x), ",".join(str(rng.randrange(-1000, 1000)) for _ in range(K)), ",".join(fbits(v) for v in p)))
            elif r < 0.82:
                ry = rng.random()    # residue codes mostly; gap / nonresidue / missing / invalid codes must give 0.0 (documented)
                y = rng.choice(safe_x) if ry < 0.7 else (rng.choice([K, Kp - 2, Kp - 1, rng.randrange(0, Kp)]) if ry < 0.93 else rng.randrange(Kp, 256))
                if rng.random() < 0.1: x = rng.choice([K, Kp - 2, Kp - 1])
                if rng.random() < 0.5: ops.append("match x=%d y=%d" % (x, y))
                else: ops.append("match x=%d y=%d p=%s" % (x, y, ",".join(dbits(v) for v in prob(K))))
            elif r < 0.92:
                ops.append("dcount x=%d wt=%s sc=%s" % (x, dbits(rng.choice([1.0, -1.0, 0.5, dval()])), ",".join(dbits(dval()) for _ in range(K + 1))))
            else:
                ops.append("fcount x=%d wt=%s sc=%s" % (x, fbits(rng.choice([1.0, -1.0, 0.5, dval()])), ",".join(fbits(dval()) for _ in range(K + 1))))
        return ops

    def vec_ops(self, rng, K, Kp, std, pools):
        """the *ScVec wrappers, esl_abc_ValidateSeq and esl_abc_GuessAlphabet"""
        ops = []
        def dv(): return rng.choice([float(rng.randrange(-20, 21)), rng.uniform(-10, 10), 0.0, 1.0])
        def prob(n):
            p = [rng.random() + 1e-3 for _ in range(n)]; t = sum(p); return [v / t for v in p]
        for _ in range(rng.randrange(0, 3)):
            r = rng.random()
            if r < 0.2: ops.append("dscvec sc=%s" % ",".join(dbits(dv()) for _ in range(Kp)))
            elif r < 0.35: ops.append("fscvec sc=%s" % ",".join(fbits(dv()) for _ in range(Kp)))
            elif r < 0.5: ops.append("dexpvec sc=%s p=%s" % (",".join(dbits(dv()) for _ in range(Kp)), ",".join(dbits(v) for v in prob(K))))
            elif r < 0.6: ops.append("fexpvec sc=%s p=%s" % (",".join(fbits(dv()) for _ in range(Kp)), ",".join(fbits(v) for v in prob(K))))
            elif r < 0.8 and std: ops.append("iscvec sc=%s" % ",".join(str(rng.randrange(-1000, 1000)) for _ in range(Kp)))
            elif std: ops.append("iexpvec sc=%s p=%s" % (",".join(str(rng.randrange(-1000, 1000)) for _ in range(Kp)), ",".join(fbits(v) for v in prob(K))))
        for _ in range(rng.randrange(0, 3)):
            n = rng.choice([0, 1, 2, rng.randrange(1, 60)])
            p2 = dict(pools); p2["high"] = bytes(range(128, 256))
            sq = self.rand_string(rng, p2, n, True)
            ops.append("validateseq hex=%s%s" % (hx(sq), " noabc=1" if rng.random() < 0.25 else ""))
        if rng.random() < 0.5:
            ops.append("guess ct=%s" % ",".join(map(str, self.rand_counts(rng))))
        if rng.random() < 0.25:
            ops.append("sqguess hex=%s" % hx(bytes(c for c in self.guess_text(rng) if c != 0)))
        if rng.random() < 0.35:
            for _ in range(rng.randrange(1, 3)):
                n = rng.choice([0, 1, 2, 3, rng.randrange(1, 40), rng.randrange(1, 300)])
                p2 = dict(pools); p2["high"] = bytes(range(128, 256))
                sq = bytes(c for c in self.rand_string(rng, p2, n, True) if c != 0); n = len(sq)
                start = rng.choice([-1, 0, 0, 0, 1, n - 1, n, n + 1, rng.randrange(0, n + 1)])
                L = rng.choice([-1, 0, 1, n, n - start, n - start + 1, n - start - 1, rng.randrange(0, n + 1)])
                ops.append("sqccount hex=%s start=%d L=%d" % (hx(sq), start, L))
        if rng.random() < 0.3:
            # esl_sq_Copy across the four text/digital combinations (ignored characters included: rejected like invalid ones since 6b1a313)
            for _ in range(rng.randrange(1, 4)):
                n = rng.choice([0, 1, 2, 40, 254, 255, 256, 257, rng.randrange(0, 600)])
                if rng.random() < 0.5:
                    p2 = dict(pools)
                    txt = bytes(c for c in self.rand_string(rng, p2, n, True) if c != 0)
                    ops.append("sqcopy from=text to=%s hex=%s" % (rng.choice(["text", "digital", "digital"]), hx(txt)))
                else:
                    codes = bytes(rng.randrange(0, Kp) for _ in range(n))
                    to = rng.choice(["text", "digital", "digital"])
                    ops.append("sqcopy from=digital to=%s hex=%s%s" % (to, hx(codes), " other=1" if to == "digital" and std and rng.random() < 0.2 else ""))
        if rng.random() < 0.3:
            # esl_sq_FetchFromMSA on a one-row alignment: text rows (gap characters "-_.~", also '*', junk, 8-bit bytes) and digital rows
            # (gap K, missing Kp-1, nonresidue Kp-2), with and without an SS line; rows of gaps only; single columns
            for _ in range(rng.randrange(1, 3)):
                n = rng.choice([1, 1, 2, 3, rng.randrange(1, 60), rng.randrange(1, 400)])
                ssarg = (" ss=%s" % hx(bytes(rng.choice(b"<>.()[]{}_-,:AaBb~") for _ in range(n)))) if rng.random() < 0.5 else ""
                allgap = rng.random() < 0.08
                if rng.random() < 0.5:
                    base = pools["valid"] + pools.get("lower", b"") + b"-_.~*" * 3 + pools.get("syn", b"") + bytes([33, 200, 255])
                    row = bytes(rng.choice(b"-_.~") if (allgap or rng.random() < 0.25) else rng.choice(base) for _ in range(n))
                    ops.append("sqfetch mode=text row=%s%s" % (hx(row), ssarg))
                else:
                    row = bytes(rng.choice([K, K, Kp - 1]) if (allgap or rng.random() < 0.25) else rng.randrange(0, Kp) for _ in range(n))
                    ops.append("sqfetch mode=digital row=%s%s" % (hx(row), ssarg))
        if rng.random() < 0.2:
            # two esl_sq_GetFromMSA calls into one reused ESL_SQ: alignment widths around the 256-cell allocation, SS line present / absent
            # in either call, second SS line longer or shorter than the first (the longer-second shape overflowed sq->ss before 4807e60)
            dig = rng.random() < 0.5
            def mkrow(n):
                if dig: return bytes(rng.choice([K, Kp - 1]) if rng.random() < 0.2 else rng.randrange(0, Kp) for _ in range(n))
                base = pools["valid"] + b"-_.~*"
                return bytes(rng.choice(base) for _ in range(n))
            n1 = rng.choice([1, 2, 10, 100, 254, 255, 256, 257, rng.randrange(1, 300)])
            n2 = rng.choice([1, 2, 10, 100, 254, 255, 256, 257, 300, 511, 512, 513, rng.randrange(1, 600)])
            has1, has2 = rng.random() < 0.6, rng.random() < 0.6
            if SAFE_GET2 and has1 and has2 and n1 < n2 <= 255: n1, n2 = n2, n1
            op = "sqget2 mode=%s row1=%s row2=%s" % ("digital" if dig else "text", hx(mkrow(n1)), hx(mkrow(n2)))
            if has1: op += " ss1=%s" % hx(bytes(rng.choice(b"<>.()_-,:Aa") for _ in range(n1)))
            if has2: op += " ss2=%s" % hx(bytes(rng.choice(b"<>.()_-,:Aa") for _ in range(n2)))
            ops.append(op)
        if rng.random() < 0.2:
            ops.append(self.msa_op(rng))
        if rng.random() < 0.3:
            ops += self.type_ops(rng)
        if rng.random() < 0.3:
            ops += self.sq_ops(rng, K, Kp)
        return ops

    def sq_ops(self, rng, K, Kp):
        """esl_sq_XAddResidue / CAddResidue (lengths around the 256-cell allocation chunk and its doublings), esl_sq_Checksum,
        esl_sq_CountResidues (start / L at and just outside the sequence), esl_sq_ConvertDegen2X"""
        ops = []
        for _ in range(rng.randrange(1, 3)):
            n = rng.choice([0, 1, 2, 5, 30, rng.randrange(0, 100), 253, 254, 255, 256, 257, 509, 510, 511, 512, 513, rng.randrange(0, 1500)])
            r = rng.random()
            if r < 0.5: pool = list(range(K)) * 4 + list(range(Kp))
            elif r < 0.8: pool = list(range(Kp))
            else: pool = list(range(K, Kp))
            codes = [rng.choice(pool) for _ in range(n)]
            if rng.random() < 0.1 and n: codes[rng.randrange(n)] = 255        # a premature sentinel is overwritten by the next residue
            nn = len([c for c in codes if c != 255])
            op = "sqxadd codes=%s" % hx(codes)
            if rng.random() < 0.6:
                start = rng.choice([-1, 0, 1, 1, 2, nn, nn + 1, nn + 2, rng.randrange(1, nn + 2)])
                L = rng.choice([-1, 0, 1, nn, nn - start + 1, nn - start + 2, nn - start, rng.randrange(0, nn + 2)])
                if CR_INTMAX and rng.random() < 0.1: start, L = rng.choice([(2 ** 31 - 1, 1), (1, 2 ** 31 - 1), (2 ** 31 - 1, 2 ** 31 - 1), (2, 2 ** 31 - 2)])
                op += " start=%d L=%d" % (start, L)
            ops.append(op)
        if rng.random() < 0.5:
            n = rng.choice([0, 1, 3, 40, 254, 255, 256, 257, 511, 512, 513, rng.randrange(0, 1200)])
            b = bytearray(rng.choice([rng.randrange(65, 91), rng.randrange(97, 123), rng.randrange(1, 256), rng.randrange(128, 256)]) for _ in range(n))
            if rng.random() < 0.15 and n: b[rng.randrange(n)] = 0
            ops.append("sqcadd hex=%s" % hx(b))
        return ops

    def obj_op(self, rng, pools, K, Kp, has_comp, n=None, script=None, dig=None, add=None, ss=None, nxr=None):
        """one ESL_SQ with ss / xr markup through a script of Digitize / Textize / ReverseComplement / Grow / GrowTo / Copy; lengths at the
        allocation boundaries (CreateFrom allocates n+1 / n+2 exactly; Create + AddResidue in 256-cell chunks, doubled)"""
        if dig is None: dig = rng.random() < 0.4
        if add is None: add = rng.random() < 0.4
        if n is None:
            n = rng.choice([0, 0, 1, 2, 3, rng.randrange(0, 40), 253, 254, 255, 256, 257, 510, 511, 512, 513, rng.randrange(0, 700)])
        okchars = pools["valid"] + pools.get("lower", b"") + pools.get("syn", b"") + pools["gap"]
        if dig:
            res = bytes(rng.randrange(0, Kp) for _ in range(n)); valid = True
        else:
            bad = rng.random() < 0.15
            pool = okchars * 8 + (pools.get("invalid", b"")[:6] + bytes([200, 255]) + pools.get("ignored", b"") if bad else b"")
            res = bytes(rng.choice(pool) for _ in range(n)); valid = all(c in okchars for c in res)
        has_ss = rng.random() < 0.5 if ss is None else ss
        if nxr is None: nxr = rng.choice([0, 0, 1, 2, 3])
        mk = lambda: bytes(rng.choice(b"<>.()[]{}_-,:AaBb0123456789*") for _ in range(n))
        toks = []
        mode_dig, ss, xr = dig, has_ss, nxr
        for _ in range(rng.randrange(0, 7) if script is None else 0):
            r = rng.random()
            if r < 0.22: tok = "d"
            elif r < 0.42: tok = "t"
            elif r < 0.52: tok = "r"
            elif r < 0.62: tok = "g"
            elif r < 0.74: tok = "to:%d" % rng.choice([0, n, n + 1, n + 2, n - 1 if n else 0, 254, 255, 256, 257, 2 * n + 3, rng.randrange(0, 1200)])
            elif r < 0.80: tok = "a:%d" % rng.choice([1, 2, 3, 255, 256, 257, 300, rng.randrange(1, 600)])
            elif r < 0.84: tok = rng.choice(["p:text", "p:digital", "p:digital", "R"])     # esl_sq_Copy into a persistent, reused destination
            elif r < 0.92: tok = "c:digital"
            else: tok = "c:text"
            if tok == "c:digital" and not mode_dig and xr and not ss and not COPY_XR_NOSS: tok = "c:text"
            if tok == "d" and valid: mode_dig = True
            elif tok == "t": mode_dig = False
            elif tok == "r" and (not mode_dig or has_comp): ss, xr = False, 0
            elif tok == "c:digital":
                if mode_dig or valid: mode_dig = True
                else: mode_dig, ss, xr, valid = True, ss, 0, True
            elif tok == "c:text": mode_dig = False
            toks.append(tok)
        if script is not None: toks = script
        op = "sqobj init=%s via=%s hex=%s" % ("digital" if dig else "text", "add" if add else "from", hx(res))
        if dig and not add and rng.random() < 0.3: op += " len=unknown"
        if has_ss: op += " ss=%s" % hx(mk())
        if nxr: op += " xr=%s" % ",".join(hx(mk()) for _ in range(nxr))
        return op + " script=%s" % (",".join(toks) if toks else "-")

    def msa_op(self, rng):
        """esl_msa_GuessAlphabet on a text-mode alignment: rows each classified on their own (long rows of one kind, mixed
        kinds: amino + nucleic = unknown, DNA + RNA = DNA), narrow alignments decided by the pooled second pass, the 10000-letter
        cutoffs of both passes; '[' (= 'A'+26, fixed in 9b7e276) and its neighbours included"""
        kinds = {"dna": b"ACGT" * 6 + b"N", "rna": b"ACGU" * 6 + b"N", "aa": b"ACDEFGHIKLMNPQRSTVWY", "aa2": b"ACDGHKMNRSTVWY", "n": b"N", "gap": b"-."}
        r = rng.random()
        if r < 0.35: nrow, alen = rng.randrange(1, 6), rng.choice([1, 3, 5, 8, 11, 12, 20, 40])
        elif r < 0.85: nrow, alen = rng.randrange(1, 9), rng.choice([11, 12, 15, 30, 60, 200])
        else: nrow, alen = rng.choice([1, 2, 3, 12]), rng.choice([2001, 3400, 5001, 10000, 10001, 10010])
        mix = rng.random()
        rows = []
        k0 = rng.choice(["dna", "rna", "aa", "aa2", "n"])
        for i in range(nrow):
            k = k0 if mix < 0.6 else rng.choice(["dna", "rna", "aa", "aa2", "n", "gap"])
            b = bytearray(rng.choice(kinds[k]) for _ in range(alen))
            for j in range(alen):
                q = rng.random()
                if q < 0.15: b[j] |= 0x20
                elif q < 0.25: b[j] = rng.choice(b"-.")
                elif q < 0.27: b[j] = rng.choice([64, 91, 91, 92, 93, 96, 123, 42, 126, 200, 0xC1, 0xE1, 0xFF, 49])
            if alen > 9000 and rng.random() < 0.5:
                k = rng.randrange(1, 9); b[alen - k:] = b"EFILPQEF"[:k]
            rows.append(bytes(b[:alen]))
        return "msaguess rows=%s" % ",".join(hx(r) for r in rows)

    def type_ops(self, rng):
        """esl_abc_EncodeType / EncodeTypeMem / DecodeType / ValidateType: the six names in random case, near misses
        (one byte changed to a neighbour of the letter range, a byte with the top bit set, prefix, extension), junk"""
        ops = []
        names = [b"amino", b"rna", b"dna", b"coins", b"dice", b"custom", b"unknown", b"protein", b"", b"nucleic"]
        for _ in range(rng.randrange(1, 5)):
            b = bytearray(rng.choice(names))
            for i in range(len(b)):
                if rng.random() < 0.4: b[i] ^= 0x20
            r = rng.random()
            if r < 0.10 and b: b[rng.randrange(len(b))] = rng.choice([64, 91, 96, 123, 32, 95])
            elif r < 0.18 and b: i = rng.randrange(len(b)); b[i] = (b[i] + rng.choice([1, -1, 128, 64, -64])) % 256 or 1
            elif r < 0.24: b = b[:-1]
            elif r < 0.30: b.append(rng.choice([32, 115, 83, 10, 1, 255]))
            elif r < 0.34: b = bytearray([rng.choice([32, 120])]) + b
            mem = rng.random() < 0.5
            if mem and rng.random() < 0.1 and b: b.insert(rng.randrange(len(b) + 1), 0)
            elif not mem: b = bytearray(c for c in b if c != 0)
            ops.append("%s hex=%s" % ("enctypemem" if mem else "enctype", hx(b)))
        for _ in range(rng.randrange(0, 3)):
            t = rng.choice([-1, 0, 1, 2, 3, 4, 5, 6, 7, 8, rng.randrange(-1000, 1000), 2 ** 31 - 1, -2 ** 31])
            ops.append("%s t=%d" % (rng.choice(["dectype", "valtype"]), t))
        return ops

    def guess_text(self, rng):
        """a text sequence for esl_sq_GuessAlphabet: letters of one kind in either case, non-letters next to the letter
        range, 8-bit bytes; sometimes longer than the 10000-letter cutoff of the counting loop"""
        kind = rng.random()
        if kind < 0.35: pool = b"ACGT" * 6 + b"N"
        elif kind < 0.5: pool = b"ACGU" * 6 + b"N"
        elif kind < 0.8: pool = b"ACDEFGHIKLMNPQRSTVWY"
        elif kind < 0.9: pool = b"ACDGHKMNRSTVWY"
        else: pool = b"ACGTNRYKMX"
        r = rng.random()
        n = rng.choice([0, 5, 10, 11, 12, 60, 200]) if r < 0.8 else rng.choice([2001, 2500, 9999, 10000, 10001, 10002, 10500])
        if rng.random() < 0.15: pool = b"N"
        b = bytearray(rng.choice(pool) for _ in range(n))
        for i in range(len(b)):
            if rng.random() < 0.3: b[i] |= 0x20
        for _ in range(rng.choice([0, 0, 1, 2, n // 50, n // 50 + 1])):
            if b: b[rng.randrange(len(b))] = rng.choice([64, 91, 96, 123, 45, 42, 32, 200, 0xC1, 0xE1, 69, 88, 110, 85, 84])
        if n > 9000 and rng.random() < 0.5 and b:       # contamination after the cutoff must not be seen
            b += bytes(rng.choice(b"EFILPQ") for _ in range(rng.randrange(1, 40)))
        return bytes(b)

    def rand_counts(self, rng):
        """26 letter counts: DNA-like, RNA-like, protein-like, all-N, tiny, borderline 2% contamination"""
        ct = [0] * 26
        def put(letters, total):
            for c in letters: ct[ord(c) - 65] += rng.randrange(0, max(1, 2 * total // max(1, len(letters))) + 1)
        kind = rng.random()
        total = rng.choice([0, 5, 10, 11, 12, 50, 100, 1000, 2000, 2001, 5000, 10 ** 6])
        if kind < 0.25: put("ACGT", total)
        elif kind < 0.4: put("ACGU", total)
        elif kind < 0.6: put("ACDEFGHIKLMNPQRSTVWY", total)
        elif kind < 0.7: ct[13] = total
        elif kind < 0.85: put("ACDGHKMNRSTVWY", total)          # protein without any amino-only letter
        else: put(rng.choice(["ACG", "ACGTN", "ACGTX", "ACGTUN", "DHKMRSVWYACGTNX"]), total)
        # contamination around the 2% threshold, missing canonical residue, stray letters
        n = sum(ct)
        r = rng.random()
        if r < 0.3 and n > 0:
            extra = rng.choice([n // 50, n // 50 + 1, n // 49, max(0, n // 50 - 1), 1])
            ct[ord(rng.choice("BJZOXNRYEFIL")) - 65] += extra
        elif r < 0.4: ct[ord(rng.choice("ACGTU")) - 65] = 0
        elif r < 0.45: ct[rng.randrange(26)] = rng.choice([-1, -5])
        elif r < 0.50: ct[ord(rng.choice("ACGTNEDX")) - 65] += rng.choice([2 ** 31 - 1, 2 ** 31, 2 ** 32, 2 ** 32 + 7, 2 ** 33 + 2 ** 31])   # `int x = ct[...]`
        elif r < 0.55 and n > 0:
            # exact boundary of the 2% test: other = floor(n'/50) or one more, with n' = n + other
            k = rng.choice(["D", "H", "K", "M", "R", "S", "V", "W", "Y", "X", "B"])
            other = n // 49 + rng.choice([-1, 0, 1])
            ct[ord(k) - 65] += max(0, other)
        return ct

    def custom_case(self, rng, hb, idx):
        K = rng.choice([1, 2, 2, 3, 4, 4, 5, 6, 8, 12, 20])
        nd = rng.choice([0, 0, 1, 2, 3, 5])
        printable = [c for c in range(33, 127)]
        rng.shuffle(printable)
        # symbols: mostly upper-case letters / digits / punctuation, all distinct
        letters = [c for c in printable if chr(c).isupper()] if rng.random() < 0.6 else [c for c in printable if not chr(c).islower()]
        others = [c for c in printable if not chr(c).isalnum()]
        need = K + nd + 1
        if len(letters) < need: letters = [c for c in printable if not chr(c).islower()]
        core = letters[:need]
        rest = [c for c in others if c not in core]
        sym = core[:K] + [rest[0]] + core[K:K + nd] + [core[K + nd]] + [rest[1], rest[2]]
        if rng.random() < 0.05:   # duplicate symbol (accepted by the code; last index wins in the input map)
            sym[rng.randrange(len(sym))] = sym[rng.randrange(len(sym))]
        Kp = len(sym)
        ops = []
        r = rng.random()
        if r < 0.04: ops.append("custom sym=%s K=%d Kp=%d" % (hx(sym), K, Kp + rng.choice([-1, 1])))
        elif r < 0.07: ops.append("custom sym=%s K=%d" % (hx(sym[:K + 3]), K))
        elif r < 0.09: ops.append("custom sym=%s K=0" % hx(sym))
        ops.append("custom sym=%s K=%d" % (hx(sym), K))
        unused = [c for c in printable if c not in sym]
        equivs, ignored = [], []
        for _ in range(rng.randrange(0, 5)):
            r = rng.random()
            if r < 0.75: s, c = rng.choice(unused), rng.choice(sym)
            elif r < 0.85: s, c = rng.choice(sym), rng.choice(sym)
            elif r < 0.95: s, c = rng.choice(unused), rng.choice(unused)
            else: s, c = rng.choice(unused), rng.choice(unused)   # (c = NUL is excluded: strchr finds the terminator, eslOK, code Kp)
            ops.append("equiv s=%d c=%d" % (s, c))
            if s not in sym and (c in sym): equivs.append(s)
        for x in range(K + 1, K + 1 + nd):
            if rng.random() < 0.85:
                k = rng.randrange(1, K + 1)
                ds = rng.sample(sym[:K], k)
                r = rng.random()
                if r < 0.05: ds.append(sym[K])            # gap: not canonical
                elif r < 0.08: ds.append(unused[0])       # not in the alphabet
                elif r < 0.10: ds.append(ds[0])           # repeated member (ndegen counts it twice)
                ops.append("degen c=%d ds=%s" % (sym[x], hx(ds)))
        r = rng.random()
        if r < 0.05: ops.append("degen c=%d ds=%s" % (sym[Kp - 3], hx(sym[:1])))
        elif r < 0.10: ops.append("degen c=%d ds=%s" % (sym[rng.randrange(0, K + 1)], hx(sym[:1])))
        elif r < 0.13: ops.append("degen c=%d ds=%s" % (unused[1], hx(sym[:1])))
        elif r < 0.25: ops.append("degen c=%d ds=%s" % (sym[rng.choice([K, Kp - 2, Kp - 1, Kp - 3])], hx(sym[:rng.randrange(1, K + 1)])))
        if rng.random() < 0.7: ops.append("caseins")
        if rng.random() < 0.5:
            ignored = rng.sample([c for c in [32, 9, 48, 49, 50, 57] + unused[5:9] if c not in sym and c not in equivs], 2)
            ops.append("ignored chars=%s" % hx(ignored))
        if rng.random() < 0.3: ops.append("caseins")
        ops.append("dump")
        up = bytes(sym)
        valid = bytes(c for i, c in enumerate(sym) if i < K or K < i < Kp - 2)
        lower = bytes(c for c in valid.lower() if c not in up)
        allowed = set(up) | set(up.lower()) | set(up.upper()) | set(equivs) | set(bytes(equivs).lower()) | set(bytes(equivs).upper()) | set(ignored)
        pools = {"valid": valid, "lower": lower, "syn": bytes(equivs), "gap": bytes([sym[K], sym[Kp - 2], sym[Kp - 1]]),
                 "ignored": bytes(ignored), "invalid": bytes(c for c in range(1, 128) if c not in allowed), "high": bytes(range(128, 256))}
        ops += self.seq_ops(rng, pools, K, Kp, hb, idx % 50 == 0, False, rng.randrange(2, 10))
        ops += self.score_ops(rng, K, Kp, list(range(K)) + [Kp - 3])
        ops += self.vec_ops(rng, K, Kp, False, pools)
        if rng.random() < 0.4: ops += [self.obj_op(rng, pools, K, Kp, False) for _ in range(rng.randrange(1, 4))]
        if rng.random() < 0.3:
            # esl_sq_CreateFrom -> Digitize -> [ReverseComplement: eslEINCOMPAT, no complement table] -> Textize on a custom alphabet
            for _ in range(rng.randrange(1, 3)):
                p2 = dict(pools); p2["ignored"] = b""
                s_ = self.rand_string(rng, p2, self.rand_len(rng, False), False)
                extra = (" ss=%s" % hx(bytes(rng.choice(b"<>.()[]{}_-,:AaBb") for _ in range(len(s_))))) if rng.random() < 0.4 else ""
                ops.append("sqroundtrip hex=%s rc=%d%s%s" % (hx(s_), int(rng.random() < 0.25), extra, " retry=1" if rng.random() < 0.4 else ""))
        return {"name": "custom%d" % idx, "ops": ops, "sticky": 1}

    def std_case(self, rng, hb, idx):
        name = rng.choice(["dna", "dna", "rna", "amino", "amino", "coins", "dice"])
        sym, K = STD[name]
        Kp = len(sym)
        ops = ["abc type=%s" % name]
        ignored = b""
        if rng.random() < 0.35:
            ignored = bytes(rng.sample([32, 9, 10, 48, 49, 57, 47], 3))
            ops.append("ignored chars=%s" % hx(ignored))
            ops.append("dump")
        pools = self.std_pools(name, ignored)
        ops += self.seq_ops(rng, pools, K, Kp, hb, idx % 25 == 0, name in ("dna", "rna"), rng.randrange(3, 14))
        ops += self.score_ops(rng, K, Kp, [x for x in range(Kp) if x < K or K < x < Kp - 2])
        ops += self.vec_ops(rng, K, Kp, True, pools)
        if rng.random() < 0.4: ops += [self.obj_op(rng, pools, K, Kp, name in ("dna", "rna")) for _ in range(rng.randrange(1, 4))]
        if rng.random() < 0.5:
            for _ in range(rng.randrange(1, 4)):
                p2 = dict(pools); p2["ignored"] = b""
                s = self.rand_string(rng, p2, self.rand_len(rng, False), False)
                extra = ""
                if rng.random() < 0.4: extra += " ss=%s" % hx(bytes(rng.choice(b"<>.()[]{}_-,:AaBb") for _ in range(len(s))))
                if rng.random() < 0.4: extra += " retry=1"      # rejected (or accepted) digitise, then a second call on the same object
                ops.append("sqroundtrip hex=%s rc=%d%s" % (hx(s), rng.randrange(2), extra))
                if name in ("dna", "rna") and rng.random() < 0.5:
                    ops.append("sqrevtext hex=%s" % hx(s))
        return {"name": "std%d-%s" % (idx, name), "ops": ops, "sticky": 1}

    def cases(self, ctx):
        rng = ctx.rng
        hb = True     # bytes >= 0x80 are ordinary invalid characters (DESIGN §7 item 3, repaired in the tree)
        n = 1500 if ctx.tier == "quick" else 20000
        out = []
        for i in range(n):
            out.append(self.std_case(rng, hb, i) if rng.random() < 0.55 else self.custom_case(rng, hb, i))
        return out

    # ------------------------------------------------------------------------------------------------------------
    def canonical(self, line):
        if line.startswith("fault"):
            return "fault"
        if line.startswith("ok type=") and (" sym=48542d582a7e " in line or " sym=3132333435362d582a7e " in line):
            return "ok type=toy" + line[line.index(" K="):]     # the type tag of the coins/dice toy alphabets is immaterial
        return line

    def nontrivial(self, case, out):
        for i, l in enumerate(out[:-1]):
            if l.startswith("st=ok dsq=") and len(l) > len("st=ok dsq=ffff"):
                return True
        return False

    # ------------------------------------------------------------------------------------------------------------
    def _monitor(self, ctx, case, out):
        """direct statements of the property on the implementation's output lines (independent of the Lean model)"""
        a = None          # alphabet tables as last printed by the implementation
        stale = False     # construction op since the last dump
        dsq = None        # current digital sequence (bytes incl. sentinels) as last printed
        txt = None        # last textize output
        last_dig = None   # (dsq) of the last digitize, valid while nothing modified it
        txt_dsq = None    # the digital sequence that `txt` is the textization of
        for op, l in zip(case["ops"], out):
            w = op.split()
            d = kv(op)
            if l.startswith(("fault", "atexit")):
                return None     # reported by the engine as a fault
            if l == "bad-op":
                continue
            name = w[0]
            if name in ("abc", "custom", "dump"):
                if l.startswith("ok "):
                    try:
                        a = Abc(l)
                    except Exception as e:
                        return Failure("monitor", "unparsable table dump: %r" % e)
                    stale = False
                    if name == "abc":
                        e = check_std_tables(d["type"], a)
                        if e: return Failure("monitor", "%s alphabet: %s" % (d["type"], e))
                    if name in ("abc", "custom"): dsq = txt = last_dig = txt_dsq = None
                    # order convention for every alphabet
                    if a.Kp < a.K + 4 or a.ndegen[a.Kp - 3] != a.K or any(a.degen[a.Kp - 3][y] != 1 for y in range(a.K)) \
                            or any(a.ndegen[x] != 0 for x in (a.K, a.Kp - 2, a.Kp - 1)):
                        return Failure("monitor", "order convention (gap/any/nonresidue/missing) broken in %s" % op)
                else:
                    a = None
                continue
            if name in ("enctype", "enctypemem"):
                src = unhex(d["hex"])
                want = {b"amino": 3, b"rna": 1, b"dna": 2, b"coins": 4, b"dice": 5, b"custom": 6}.get(bytes(src).lower() if all(c < 128 for c in src) else b"?", 0)
                if l != "ok %d" % want:
                    return Failure("monitor", "%s(%r) answers %r, documented code %d" % (name, bytes(src), l, want))
                continue
            if name == "dectype":
                t = int(d["t"]); nm = {0: b"unknown", 1: b"RNA", 2: b"DNA", 3: b"amino", 4: b"coins", 5: b"dice", 6: b"custom"}.get(t)
                if (nm is None and not l.startswith("exception einval null")) or (nm is not None and l != "ok " + hx(nm)):
                    return Failure("monitor", "DecodeType(%d) answers %r" % (t, l))
                continue
            if name == "valtype":
                t = int(d["t"])
                if l != ("ok" if 1 <= t <= 6 else "fail"):
                    return Failure("monitor", "ValidateType(%d) answers %r" % (t, l))
                continue
            if name == "sqguess":
                src = unhex(d["hex"]); ct = [0] * 26; nl = 0
                for c in src:
                    if 65 <= c <= 90 or 97 <= c <= 122:
                        ct[(c & 0xDF) - 65] += 1; nl += 1
                        if nl > 10000: break
                t = int(kv(l).get("type", -1))
                if (l.split()[0] == "ok") != (t != 0): return Failure("monitor", "esl_sq_GuessAlphabet status/type inconsistent: %s" % l)
                if nl <= 10 and t != 0: return Failure("monitor", "esl_sq_GuessAlphabet guesses type %d from %d letters" % (t, nl))
                if t in (1, 2) and any(ct[ord(c) - 65] > 0 for c in "EFIJLOPQZ"):
                    return Failure("monitor", "esl_sq_GuessAlphabet calls a sequence with amino-only letters nucleic")
                if t == 3 and not any(ct[ord(c) - 65] > 0 for c in "DEFHIJKLMOPQRSVWYZ"):
                    return Failure("monitor", "esl_sq_GuessAlphabet calls a sequence without any amino-specific letter amino")
                if t in (1, 2) and not (nl > 2000 and ct[13] == nl):
                    other = nl - sum(ct[ord(c) - 65] for c in ("ACGTN" if t == 2 else "ACGUN"))
                    if 50 * other > nl or any(ct[ord(c) - 65] == 0 for c in ("ACGT" if t == 2 else "ACGU")):
                        return Failure("monitor", "esl_sq_GuessAlphabet answers %s on a composition outside the documented thresholds" % ("DNA" if t == 2 else "RNA"))
                continue
            if name == "msaguess":
                rows = [unhex(h) for h in d["rows"].split(",")]
                t = int(kv(l).get("type", -1))
                if (l.split()[0] == "ok") != (t != 0) or l.split()[0] not in ("ok", "enoalphabet") or t not in (0, 1, 2, 3):
                    return Failure("monitor", "esl_msa_GuessAlphabet status/type inconsistent: %s" % l)
                letters = [c & 0xDF for r_ in rows for c in r_ if 65 <= c <= 90 or 97 <= c <= 122]
                if len(letters) <= 10 and t != 0:
                    return Failure("monitor", "esl_msa_GuessAlphabet guesses type %d from %d letters" % (t, len(letters)))
                if t == 3 and not any(chr(c) in "DEFHIJKLMOPQRSVWYZ" for c in letters):
                    return Failure("monitor", "esl_msa_GuessAlphabet calls an alignment without any amino-specific letter amino")
                types = [py_guess(row_counts(r_)) for r_ in rows]
                if 3 in types and (1 in types or 2 in types) and t != 0:
                    return Failure("monitor", "esl_msa_GuessAlphabet answers type %d for an alignment with a row called amino and a row called nucleic (documented: indeterminate)" % t)
                if 3 in types and 1 not in types and 2 not in types and t != 3:
                    return Failure("monitor", "esl_msa_GuessAlphabet answers type %d although some row is called amino and none nucleic" % t)
                if 3 not in types and (1 in types or 2 in types) and t != (2 if 2 in types else 1):
                    return Failure("monitor", "esl_msa_GuessAlphabet answers type %d although the rows vote nucleic" % t)
                if t in (1, 2) and sum(len(r_) for r_ in rows) <= 10000 and all(any(chr(c & 0xDF) in "EFIJLOPQZ" for c in r_ if 65 <= (c & 0xDF) <= 90 and c < 128) for r_ in rows):
                    return Failure("monitor", "esl_msa_GuessAlphabet calls an alignment nucleic although every row has amino-only letters")
                continue
            if name == "sqobj":
                # every object the script leaves behind (the ESL_SQ itself and the reused Copy destination P) is consistent: markup lines as long as the sequence
                if l.startswith(("bad-op", "fault")): continue
                for part in l.split(" || P: "):
                    r = kv(part[part.index("mode="):]) if "mode=" in part else None
                    if r is None: return Failure("monitor", "sqobj: unparsable answer %s" % l[:80])
                    n_ = int(r["n"]); marks = ([] if r["ss"] == "null" else [("ss", r["ss"])]) + ([] if r["xr"] == "-" and r["nxr"] == "0" else [("xr", h_) for h_ in r["xr"].split(",")])
                    if "!" in part: return Failure("monitor", "sqobj: %s" % part[part.index("!"):][:60])
                    if len(unhex(r["seq"])) != n_: return Failure("monitor", "sqobj: n=%d but the sequence holds %d residues" % (n_, len(unhex(r["seq"]))))
                    for nm_, h_ in marks:
                        if h_.startswith("!") or len(unhex(h_)) != n_:
                            return Failure("monitor", "an ESL_SQ is left with a %s line of %d characters for n=%d residues (stale or truncated markup; esl_sq_Validate fails)" % (nm_, len(unhex(h_)) if not h_.startswith("!") else -1, n_))
                    if int(r["nxr"]) != len([m for m in marks if m[0] == "xr"]): return Failure("monitor", "sqobj: nxr=%s but %d markup lines" % (r["nxr"], len(marks)))
                    if int(r["salloc"]) < n_ + (2 if r["mode"] == "digital" else 1): return Failure("monitor", "sqobj: salloc=%s too small for n=%d" % (r["salloc"], n_))
                continue
            if name == "sqcadd":
                src = unhex(d["hex"]); want = bytes(c for c in src if c != 0)
                r = kv(l)
                if unhex(r.get("seq", "-")) != want + b"\0" or int(r.get("n", -1)) != len(want) or int(r.get("salloc", 0)) < len(want) + 1:
                    return Failure("monitor", "esl_sq_CAddResidue: sequence/length/allocation wrong: %s" % l[:80])
                if r.get("d2x") != "exception-einval":
                    return Failure("monitor", "esl_sq_ConvertDegen2X on a text-mode sequence answers %s" % r.get("d2x"))
                continue
            if a is None:
                continue
            if name in ("equiv", "caseins", "degen", "ignored"):
                stale = True
                continue
            if stale:
                continue      # tables unknown to the monitor until the next dump
            if name in ("digitize", "createdsq", "redigitize"):
                src = unhex(d["hex"]) if name != "redigitize" else txt
                if src is None: continue
                src = src.split(b"\0")[0]
                r = kv(l)
                if "dsq" not in r: return Failure("monitor", "%s answered %r" % (name, l))
                got = unhex(r["dsq"])
                codes = [a.code(c) for c in src]
                want = bytes([SENT] + [c[0] for c in codes if c is not None] + [SENT])
                inval = any(c is not None and not c[1] for c in codes)
                if got != want:
                    i = next((k for k in range(min(len(got), len(want))) if got[k] != want[k]), min(len(got), len(want)))
                    return Failure("monitor", "digitize: code array differs from the per-character codes at index %d (len %d vs %d)" % (i, len(got), len(want)))
                if (r["st"] == "einval") != inval or r["st"] not in ("ok", "einval"):
                    return Failure("monitor", "digitize: status %s but input %s an invalid character" % (r["st"], "has" if inval else "has not"))
                wf = all(a.sym[x] < 128 and a.inmap[a.sym[x]] == x for x in range(a.Kp))   # WFAlphabet (Lean: Alphabet.WF)
                if not wf:
                    dsq = got; last_dig = None
                    continue
                if name == "redigitize" and txt_dsq is not None and got != txt_dsq:
                    return Failure("monitor", "digitize(textize(d)) differs from the digital sequence d that was textized")
                if name == "redigitize" and r["st"] != "ok":
                    return Failure("monitor", "digitising a textized sequence reports %s" % r["st"])
                dsq = got; last_dig = got if name != "redigitize" else last_dig
            elif name == "textize":
                if dsq is None: continue
                t = l.split()
                got = unhex(t[1]) if len(t) > 1 else b""
                if any(x >= a.Kp for x in dsq[1:-1]): continue
                want = bytes(a.sym[x] for x in dsq[1:-1])
                if t[0] != "ok" or got != want:
                    return Failure("monitor", "textize: not the canonical symbol of each code")
                if "nul=1" not in t:
                    return Failure("monitor", "textize: the text is not NUL-terminated after L characters")
                txt = got; txt_dsq = dsq
            elif name == "revcomp":
                if dsq is None: continue
                if a.comp is None:
                    if not l.startswith("exception eincompat"): return Failure("monitor", "revcomp without complement answered %r" % l)
                    continue
                r = kv(l); got = unhex(r.get("dsq", "-"))
                n = int(d.get("n", len(dsq) - 2))
                body = list(dsq[1:1 + n])
                if any(x >= a.Kp for x in body): continue
                want = bytes([SENT] + [a.comp[x] for x in reversed(body)] + list(dsq[1 + n:]))
                if got != want:
                    return Failure("monitor", "revcomp: not the reversed complemented sequence (n=%d)" % n)
                dsq = got; last_dig = None
            elif name in ("dsqcat", "degen2x", "dsqnull"):
                r = kv(l)
                dsq = unhex(r["dsq"]) if r.get("dsq", "null") != "null" else None
                last_dig = None
            elif name in ("davg", "favg"):
                x = int(d["x"]); un = undbits if name == "davg" else unfbits
                sc = [un(v) for v in d["sc"].split(",")]
                got = un(l.split()[1])
                if x >= a.Kp or not a.is_residue(x):
                    if got != 0.0: return Failure("monitor", "%s of non-residue code %d is %r" % (name, x, got))
                    continue
                members = [sc[y] for y in range(a.K) if a.degen[x][y]]
                if a.ndegen[x] != len(members): continue      # not WFDegen (custom alphabet with a repeated member): no statement
                if not members or any(math.isinf(v) or math.isnan(v) for v in members): continue
                if sum(abs(v) for v in members) > (1e300 if name == "davg" else 1e37): continue   # intermediate overflow is L0, not the property
                want = math.fsum(members) / len(members)
                tol = (1e-9 if name == "davg" else 1e-4) * (max(abs(v) for v in members) + 1e-300)
                if math.isnan(got) or (not math.isinf(want) and abs(got - want) > tol):
                    return Failure("monitor", "%s x=%d: %r is not the mean %r over the degeneracy set" % (name, x, got, want))
            elif name == "sqxadd":
                codes = [c for c in unhex(d["codes"]) if c != 255]; r = kv(l); n = len(codes)
                if unhex(r.get("dsq", "-")) != bytes([255] + codes + [255]) or int(r.get("n", -1)) != n or int(r.get("salloc", 0)) < n + 2:
                    return Failure("monitor", "esl_sq_XAddResidue: sequence/length/allocation wrong: %s" % l[:80])
                want2 = bytes([255] + [(a.Kp - 3 if a.K < c < a.Kp - 2 else c) for c in codes] + [255])
                if r.get("d2x") != "ok" or unhex(r.get("dsq2", "-")) != want2:
                    return Failure("monitor", "esl_sq_ConvertDegen2X: not every degenerate code became the 'any' code")
                start = int(d.get("start", 1)); L = int(d.get("L", n))
                if (r.get("cr") == "erange") != (start < 1 or start + L > n + 1) or r.get("cr") not in ("ok", "erange"):
                    return Failure("monitor", "esl_sq_CountResidues(start=%d, L=%d) on n=%d answers %s" % (start, L, n, r.get("cr")))
                f = [unfbits(v) for v in r["f"].split(",")]
                if r.get("cr") == "erange":
                    if any(v != 0.0 for v in f): return Failure("monitor", "esl_sq_CountResidues changed the counts although it answered eslERANGE")
                elif all(a.ndegen[x] == sum(1 for y in range(a.K) if a.degen[x][y]) for x in range(a.Kp)):
                    want = [0.0] * a.K
                    for c in codes[start - 1:start - 1 + max(0, L)]:
                        if c < a.K: want[c] += 1.0
                        elif a.K < c < a.Kp - 2 and a.ndegen[c]:
                            for y in range(a.K):
                                if a.degen[c][y]: want[y] += 1.0 / a.ndegen[c]
                    if any(math.isnan(f[y]) or abs(f[y] - want[y]) > 1e-3 * (1 + want[y]) for y in range(a.K)):
                        return Failure("monitor", "esl_sq_CountResidues: counts are not the equal split over the degeneracy sets of the residues in range")
            elif name == "sqget2":
                if not l.startswith("ok "): return Failure("monitor", "esl_sq_GetFromMSA answers %s" % l[:60])
                r = kv(l)
                for k in ("1", "2"):
                    row = unhex(d["row" + k]); ssv = unhex(d["ss" + k]) if ("ss" + k) in d else None
                    if d.get("mode") == "digital":
                        keep = [i for i, x in enumerate(row) if x != a.K and x != a.Kp - 1]; want = bytes([255] + [row[i] for i in keep] + [255])
                    else:
                        keep = [i for i, c in enumerate(row) if c not in b"-_.~"]; want = bytes(row[i] for i in keep)
                    if unhex(r["seq" + k]) != want or int(r["n" + k]) != len(keep):
                        return Failure("monitor", "esl_sq_GetFromMSA call %s (%s): the sequence is not the row without its gap/missing-data columns" % (k, d.get("mode")))
                    if ssv is not None and r["ss" + k] != hx(bytes(ssv[i] for i in keep)):
                        return Failure("monitor", "esl_sq_GetFromMSA call %s (%s): the SS line is not dealigned like the sequence" % (k, d.get("mode")))
            elif name == "sqfetch":
                row = unhex(d["row"]); ssv = unhex(d["ss"]) if "ss" in d else None; r = kv(l)
                if not l.startswith("ok "): return Failure("monitor", "esl_sq_FetchFromMSA answers %s" % l[:60])
                if d.get("mode") == "digital":
                    keep = [i for i, x in enumerate(row) if x != a.K and x != a.Kp - 1]
                    want = bytes([255] + [row[i] for i in keep] + [255])
                else:
                    keep = [i for i, c in enumerate(row) if c not in b"-_.~"]
                    want = bytes(row[i] for i in keep)
                if unhex(r["seq"]) != want or int(r["n"]) != len(keep):
                    return Failure("monitor", "esl_sq_FetchFromMSA (%s): the sequence is not the row without its gap/missing-data columns (n=%s, expected %d)" % (d.get("mode"), r["n"], len(keep)))
                wss = "null" if ssv is None else hx(bytes(ssv[i] for i in keep))
                if r["ss"] != wss:
                    return Failure("monitor", "esl_sq_FetchFromMSA (%s): the SS line is not dealigned like the sequence" % d.get("mode"))
            elif name == "sqcopy":
                if l.startswith("exception"):
                    if not (d.get("from") == "digital" and d.get("to") == "digital" and "other" in d and l == "exception eincompat"):
                        return Failure("monitor", "esl_sq_Copy raised %s" % l)
                    continue
                r = kv(l); src = unhex(d["hex"])
                if r["st"] == "ok" and (r["valid"] != "ok" or r["n"] != r["len"]):
                    return Failure("monitor", "esl_sq_Copy returned eslOK but the copy is inconsistent: n=%s, sequence length %s, esl_sq_Validate %s" % (r["n"], r["len"], r["valid"]))
                if r["st"] == "ok":
                    got = unhex(r["body"])
                    if d.get("from") == d.get("to"): want = src
                    elif d.get("from") == "text": want = bytes(a.inmap[c] if c < 128 else ILLEGAL for c in src)
                    else: want = bytes(a.sym[x] for x in src) if all(x < a.Kp for x in src) else None
                    if want is not None and got != want:
                        return Failure("monitor", "esl_sq_Copy %s -> %s: the copy is not the converted sequence" % (d.get("from"), d.get("to")))
                elif d.get("from") == "text" and d.get("to") == "digital":
                    if all(c < 128 and a.inmap[c] < a.Kp for c in src):
                        return Failure("monitor", "esl_sq_Copy refuses a text of valid characters: %s" % r["st"])
                    if r["n"] != "0": return Failure("monitor", "esl_sq_Copy failed but left n=%s" % r["n"])
            elif name == "sqccount":
                src = unhex(d["hex"]); n = len(src); start = int(d.get("start", 0)); L = int(d.get("L", n))
                st = l.split()[0]
                if (st == "erange") != (start < 0 or start + L > n) or st not in ("ok", "erange"):
                    return Failure("monitor", "text-mode esl_sq_CountResidues(start=%d, L=%d) on n=%d answers %s" % (start, L, n, st))
                f = [unfbits(v) for v in kv(l)["f"].split(",")]
                if st == "erange":
                    if any(v != 0.0 for v in f): return Failure("monitor", "esl_sq_CountResidues changed the counts although it answered eslERANGE")
                elif all(a.ndegen[x] == sum(1 for y in range(a.K) if a.degen[x][y]) for x in range(a.Kp)):
                    want = [0.0] * a.K
                    for ch_ in src[start:start + max(0, L)]:
                        c = a.inmap[ch_] if ch_ < 128 else ILLEGAL
                        if c < a.K: want[c] += 1.0
                        elif a.K < c < a.Kp - 2 and a.ndegen[c]:
                            for y in range(a.K):
                                if a.degen[c][y]: want[y] += 1.0 / a.ndegen[c]
                    if any(math.isnan(f[y]) or abs(f[y] - want[y]) > 1e-3 * (1 + want[y]) for y in range(a.K)):
                        return Failure("monitor", "text-mode esl_sq_CountResidues: counts are not the equal split over the degeneracy sets of the valid residues in range")
            elif name == "iavg":
                x = int(d["x"]); sc = [int(v) for v in d["sc"].split(",")]; got = int(l.split()[1])
                if x >= a.Kp or not a.is_residue(x):
                    if got != 0: return Failure("monitor", "iavg of non-residue code %d is %d" % (x, got))
                    continue
                members = [sc[y] for y in range(a.K) if a.degen[x][y]]
                if a.ndegen[x] != len(members) or not members or max(abs(v) for v in members) > 10 ** 4: continue   # binary32 quotient stays > 1/(2m) away from a .5 boundary
                tot, m = sum(members), len(members)       # round half away from zero of tot/m, exactly
                want = (abs(2 * tot) + m) // (2 * m) * (1 if tot >= 0 else -1)
                if got != want:
                    return Failure("monitor", "iavg x=%d: %d is not the mean %d/%d rounded half away from zero (%d)" % (x, got, tot, m, want))
            elif name == "validateseq":
                src = unhex(d["hex"])
                bad = [c for c in src if (c >= 128 if "noabc" in d else not (c < 128 and a.inmap[c] < a.Kp))]
                if (l.split()[0] == "einval") != bool(bad) or l.split()[0] not in ("ok", "einval"):
                    return Failure("monitor", "ValidateSeq says %s, the sequence has %d characters outside the alphabet" % (l.split()[0], len(bad)))
            elif name in ("dscvec", "fscvec"):
                un = undbits if name == "dscvec" else unfbits
                before = [un(v) for v in d["sc"].split(",")]; after = [un(v) for v in l.split()[1].split(",")]
                for x in range(a.Kp):
                    if x <= a.K or x >= a.Kp - 2:
                        if after[x] != before[x] and not (math.isnan(after[x]) and math.isnan(before[x])):
                            return Failure("monitor", "%s changed the score of code %d (canonical/gap/nonresidue/missing must stay)" % (name, x))
                    else:
                        members = [before[y] for y in range(a.K) if a.degen[x][y]]
                        if members and a.ndegen[x] == len(members):
                            want = math.fsum(members) / len(members)
                            if math.isnan(after[x]) or abs(after[x] - want) > 1e-4 * (max(abs(v) for v in members) + 1e-30):
                                return Failure("monitor", "%s: score of degenerate code %d is %r, mean over its set is %r" % (name, x, after[x], want))
            elif name == "guess":
                ct = [int(v) for v in d["ct"].split(",")]; t = int(kv(l).get("type", -1))
                n = sum(ct)
                if (l.split()[0] == "ok") != (t != 0): return Failure("monitor", "GuessAlphabet status/type inconsistent: %s" % l)
                if n <= 10 and t != 0: return Failure("monitor", "GuessAlphabet guesses type %d from %d residues" % (t, n))
                if t in (1, 2) and min(ct) >= 0 and any(ct[ord(c) - 65] > 0 for c in "EFIJLOPQZ"):
                    return Failure("monitor", "GuessAlphabet calls a composition with amino-only letters nucleic")
                if t == 3 and min(ct) >= 0 and n > 10 and not any(ct[ord(c) - 65] > 0 for c in "DEFHIJKLMOPQRSVWYZ"):
                    return Failure("monitor", "GuessAlphabet calls a composition without any amino-specific letter amino")
            elif name == "match":
                x, y = int(d["x"]), int(d["y"])
                got = undbits(l.split()[1])
                if x < a.K and y < a.K:
                    if got != (1.0 if x == y else 0.0): return Failure("monitor", "match of canonical %d,%d is %r" % (x, y, got))
                elif not (x < a.Kp and a.is_residue(x)) or not (y < a.Kp and a.is_residue(y)):
                    if got != 0.0 or math.isnan(got):
                        return Failure("monitor", "match x=%d y=%d involves a gap/nonresidue/missing/invalid code and returns %r (documented 0.0)" % (x, y, got))
                elif a.is_residue(x) and a.is_residue(y) and "p" not in d:
                    sx = {i for i in range(a.K) if a.degen[x][i]}; sy = {i for i in range(a.K) if a.degen[y][i]}
                    if sx and sy:
                        want = len(sx & sy) / (len(sx) * len(sy))
                        if math.isnan(got) or abs(got - want) > 1e-9:
                            return Failure("monitor", "match x=%d y=%d: %r, average over the two degeneracy sets is %r" % (x, y, got, want))
            elif name in ("dcount", "fcount"):
                x = int(d["x"]); un = undbits if name == "dcount" else unfbits
                before = [un(v) for v in d["sc"].split(",")]
                after = [un(v) for v in l.split()[1].split(",")]
                wt = un(d["wt"])
                if any(math.isinf(v) or math.isnan(v) for v in before + [wt]) or abs(wt) > (1e200 if name == "dcount" else 1e30) or max(abs(v) for v in before) > (1e200 if name == "dcount" else 1e30): continue
                if x < a.K or x == a.K: members = [x]
                elif x >= a.Kp - 2: members = []
                else:
                    members = [y for y in range(a.K) if a.degen[x][y]]
                    if a.ndegen[x] != len(members) or not members: continue   # not WFDegen / undefined degeneracy
                for y in range(len(before)):
                    share = wt / len(members) if y in members else 0.0
                    tol = (1e-9 if name == "dcount" else 1e-4) * (abs(before[y]) + abs(share) + 1e-300)
                    if math.isnan(after[y]) or abs(after[y] - (before[y] + share)) > tol:
                        return Failure("monitor", "%s x=%d: count %d changed by %r, equal split is %r" % (name, x, y, after[y] - before[y], share))
        return None

    def monitor(self, ctx, case, out):
        st = self.__dict__.setdefault("_dist", {"ops": {}, "results": {}, "arg_bytes": {}})
        for op, l in zip(case["ops"], out):
            name = op.split(" ", 1)[0]
            st["ops"][name] = st["ops"].get(name, 0) + 1
            res = l.split(" ", 1)[0][:24] if l else "<none>"
            if res.startswith("st="): res = res
            key = name + ":" + res
            st["results"][key] = st["results"].get(key, 0) + 1
            n = len(op)
            b = "<64" if n < 64 else "<1k" if n < 1024 else "<8k" if n < 8192 else ">=8k"
            st["arg_bytes"][b] = st["arg_bytes"].get(b, 0) + 1
        try:
            return self._monitor(ctx, case, out)
        except Exception as e:      # an answer the monitor cannot even parse is itself a wrong answer
            bad = next((l for l in out if not l.startswith(("ok", "st=", "dig=", "e", "bad-op", "null", "fault", "atexit"))), out[-1] if out else "")
            return Failure("monitor", "unexpected answer from the implementation (%s: %s): %s" % (type(e).__name__, e, bad[:80]))

    def extra_evidence(self, ctx):
        return {"input_distribution": getattr(self, "_dist", {}), "table_rows_dumped": {t["name"]: t["Kp"] for t in getattr(self, "_tabs", [])}}


SPEC = C08()
