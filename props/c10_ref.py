"""L0 reference for C10 (NOT a theorem): textbook closed forms of the distributions, evaluated with mpmath at 50 digits.
Used by the property monitors of props/c10.py to (a) compare every value the C library returns with the closed form,
tolerance scaled by the condition number (variation of the closed form under 1-ulp perturbations of the inputs and of
the one intermediate the closed form itself prescribes to be formed in binary64, 1+alpha*y for the GEV), and (b) report
a concrete failing input when a relation (cdf+surv=1, log versions, inverse, monotonicity, derivative) breaks."""
import sys, struct, math
try:
    import mpmath
except ImportError:                                   # tooling venv (python3-vt) carries mpmath via sympy
    sys.path.append("/opt/veriftools/pyvenv/lib/python3.11/site-packages")
    import mpmath
from mpmath import mp, mpf

mp.dps = 50
INF = mpf("inf")
ONE, ZERO = mpf(1), mpf(0)


def bits(x):
    return struct.unpack("<Q", struct.pack("<d", x))[0]


def frombits(u):
    return struct.unpack("<d", struct.pack("<Q", u))[0]


def dhex(x):
    return "%016x" % bits(x)


def unhex(s):
    return frombits(int(s, 16))


def nextafter(x, k=1):
    """k-th neighbour of the double x (k may be negative)"""
    for _ in range(abs(k)):
        x = math.nextafter(x, math.inf if k > 0 else -math.inf)
    return x


def _log(x):
    return -INF if x == 0 else mpmath.log(x)


def _exp(x):
    if x == -INF:
        return ZERO
    if x == INF or x > 1e5:            # far beyond binary64's range either way (and mpmath would materialise it)
        return INF
    if x < -1e5:
        return ZERO
    return mpmath.exp(x)


def log1mexp(a):
    """log(1 - exp(-a)) for a >= 0, accurate at both ends"""
    if a == 0:
        return -INF
    if a == INF or a > 1e5:
        return -_exp(-a)
    if a > mpf("0.7"):
        return mpmath.log1p(-mpmath.exp(-a))
    return mpmath.log(-mpmath.expm1(-a))


def one_m_exp(a):
    """1 - exp(-a) for a >= 0"""
    if a == INF or a > 1e5:
        return ONE
    return -mpmath.expm1(-a)


# ------------------------------------------------------------------------------------------------
# closed forms: every function returns a dict name -> mpf for the x-functions, given mp arguments
# ------------------------------------------------------------------------------------------------
def exp_x(x, mu, lam):
    if x < mu:
        return dict(pdf=ZERO, logpdf=-INF, cdf=ZERO, logcdf=-INF, surv=ONE, logsurv=ZERO)
    y = lam * (x - mu)
    return dict(pdf=lam * _exp(-y), logpdf=_log(lam) - y, cdf=one_m_exp(y), logcdf=log1mexp(y), surv=_exp(-y), logsurv=-y)


def exp_p(p, mu, lam):
    return dict(invcdf=mu - mpmath.log1p(-p) / lam, invsurv=mu - _log(p) / lam)


def gumbel_y(y, lam):
    ey = _exp(-y)
    if ey == 0:                       # y beyond 1e5: surv = exp(-y) underflows, log surv = -y
        return dict(pdf=ZERO, logpdf=_log(lam) - y, cdf=ONE, logcdf=ZERO, surv=ZERO, logsurv=-y)
    return dict(pdf=lam * _exp(-y - ey), logpdf=_log(lam) - y - ey, cdf=_exp(-ey), logcdf=-ey,
                surv=one_m_exp(ey), logsurv=log1mexp(ey))


def gumbel_x(x, mu, lam):
    return gumbel_y(lam * (x - mu), lam)


def gumbel_p(p, mu, lam):
    return dict(invcdf=mu - _log(-_log(p)) / lam, invsurv=mu - _log(-mpmath.log1p(-p)) / lam)


def gev_x(x, mu, lam, alpha, ya1=None):
    y = lam * (x - mu)
    if alpha == 0:
        return gumbel_y(y, lam)
    if ya1 is None:
        ya1 = 1 + alpha * y
    if ya1 <= 0:
        if alpha > 0:      # Frechet type: below the lower bound
            return dict(pdf=ZERO, logpdf=-INF, cdf=ZERO, logcdf=-INF, surv=ONE, logsurv=ZERO)
        return dict(pdf=ZERO, logpdf=-INF, cdf=ONE, logcdf=ZERO, surv=ZERO, logsurv=-INF)
    l = mpmath.log(ya1)
    t = _exp(-l / alpha)                          # ya1^(-1/alpha)
    logpdf = _log(lam) - (1 + 1 / alpha) * l - t
    if t == 0:
        return dict(pdf=_exp(logpdf), logpdf=logpdf, cdf=ONE, logcdf=ZERO, surv=ZERO, logsurv=-l / alpha)
    return dict(pdf=_exp(logpdf), logpdf=logpdf, cdf=_exp(-t), logcdf=-t,
                surv=one_m_exp(t), logsurv=log1mexp(t))


def gev_p(p, mu, lam, alpha):
    if alpha == 0:
        return dict(invcdf=mu - _log(-_log(p)) / lam)
    return dict(invcdf=mu + mpmath.expm1(-alpha * _log(-_log(p))) / (alpha * lam))


def wei_x(x, mu, lam, tau):
    if x < mu:
        return dict(pdf=ZERO, logpdf=-INF, cdf=ZERO, logcdf=-INF, surv=ONE, logsurv=ZERO)
    if x == mu:
        pdf = INF if tau < 1 else (ZERO if tau > 1 else lam)
        return dict(pdf=pdf, logpdf=_log(pdf), cdf=ZERO, logcdf=-INF, surv=ONE, logsurv=ZERO)
    y = lam * (x - mu)
    z = _exp(tau * _log(y))
    logpdf = _log(lam) + _log(tau) + (tau - 1) * _log(y) - z
    return dict(pdf=_exp(logpdf), logpdf=logpdf, cdf=one_m_exp(z), logcdf=log1mexp(z), surv=_exp(-z), logsurv=-z)


def wei_p(p, mu, lam, tau):
    return dict(invcdf=mu + _exp(_log(-mpmath.log1p(-p)) / tau) / lam)


def _gammainc_P(a, z):
    if z == 0:
        return ZERO
    return mpmath.gammainc(a, 0, z, regularized=True)


def _gammainc_Q(a, z):
    if z == 0:
        return ONE
    return mpmath.gammainc(a, z, INF, regularized=True)


def sxp_x(x, mu, lam, tau):
    if x < mu:
        return dict(pdf=ZERO, logpdf=-INF, cdf=ZERO, logcdf=-INF, surv=ONE, logsurv=ZERO)
    lg = mpmath.loggamma(1 / tau)
    if x == mu:
        logpdf = _log(lam) + _log(tau) - lg
        return dict(pdf=_exp(logpdf), logpdf=logpdf, cdf=ZERO, logcdf=-INF, surv=ONE, logsurv=ZERO)
    y = lam * (x - mu)
    z = _exp(tau * _log(y))
    logpdf = _log(lam) + _log(tau) - lg - z
    P, Q = _gammainc_P(1 / tau, z), _gammainc_Q(1 / tau, z)
    return dict(pdf=_exp(logpdf), logpdf=logpdf, cdf=P, logcdf=_log(P), surv=Q, logsurv=_log(Q))


def gam_x(x, mu, lam, tau):
    if x < mu:
        return dict(pdf=ZERO, logpdf=-INF, cdf=ZERO, logcdf=-INF, surv=ONE, logsurv=ZERO)
    y = lam * (x - mu)
    if x == mu:
        pdf = INF if tau < 1 else (ZERO if tau > 1 else lam)
        return dict(pdf=pdf, logpdf=_log(pdf), cdf=ZERO, logcdf=-INF, surv=ONE, logsurv=ZERO)
    logpdf = tau * _log(lam) + (tau - 1) * _log(x - mu) - mpmath.loggamma(tau) - y
    P, Q = _gammainc_P(tau, y), _gammainc_Q(tau, y)
    return dict(pdf=_exp(logpdf), logpdf=logpdf, cdf=P, logcdf=_log(P), surv=Q, logsurv=_log(Q))


def normal_x(x, mu, sigma):
    z = (x - mu) / sigma
    logpdf = -z * z / 2 - _log(sigma) - _log(2 * mpmath.pi) / 2
    c, s = mpmath.erfc(-z / mpmath.sqrt(2)) / 2, mpmath.erfc(z / mpmath.sqrt(2)) / 2
    return dict(pdf=_exp(logpdf), logpdf=logpdf, cdf=c, surv=s)


def lognormal_x(x, mu, sigma):
    if x <= 0:
        return dict(pdf=ZERO, logpdf=-INF)
    z = (_log(x) - mu) / sigma
    logpdf = -z * z / 2 - _log(x * sigma) - _log(2 * mpmath.pi) / 2
    return dict(pdf=_exp(logpdf), logpdf=logpdf)


FAMILY = {
    # name: (C prefix, nparams, x-functions closed form, p-functions closed form, x-function names, p-function names)
    "exp":    ("esl_exp_",    2, exp_x,    exp_p,    ("pdf", "logpdf", "cdf", "logcdf", "surv", "logsurv"), ("invcdf", "invsurv")),
    "gumbel": ("esl_gumbel_", 2, gumbel_x, gumbel_p, ("pdf", "logpdf", "cdf", "logcdf", "surv", "logsurv"), ("invcdf", "invsurv")),
    "gev":    ("esl_gev_",    3, gev_x,    gev_p,    ("pdf", "logpdf", "cdf", "logcdf", "surv", "logsurv"), ("invcdf",)),
    "wei":    ("esl_wei_",    3, wei_x,    wei_p,    ("pdf", "logpdf", "cdf", "logcdf", "surv", "logsurv"), ("invcdf",)),
    "sxp":    ("esl_sxp_",    3, sxp_x,    None,     ("pdf", "logpdf", "cdf", "logcdf", "surv", "logsurv"), ()),
    "gam":    ("esl_gam_",    3, gam_x,    None,     ("pdf", "logpdf", "cdf", "logcdf", "surv", "logsurv"), ()),
    "normal": ("esl_normal_", 2, normal_x, None,     ("pdf", "logpdf", "cdf", "surv"), ()),
    "lognormal": ("esl_lognormal_", 2, lognormal_x, None, ("pdf", "logpdf"), ()),
}
PREFIX2FAM = {v[0]: k for k, v in FAMILY.items()}

DBL_MAX = mpf(sys.float_info.max)
DBL_MIN = mpf(sys.float_info.min)
U = mpf(2) ** -52


def split_fn(fn):
    """'esl_gev_logcdf' -> ('gev', 'logcdf')"""
    for pre, fam in PREFIX2FAM.items():
        if fn.startswith(pre):
            return fam, fn[len(pre):]
    return None, None


_CACHE = {}


def reference_all(fam, kind, args, ulps=2):
    """closed-form values of all x-functions (kind 'x') or p-functions (kind 'p') of a family at args = [x_or_p, params...]
       (Python floats), each with the band [lo, hi] the closed form sweeps under `ulps`-ulp perturbations of every input
       and of the intermediates the closed form itself prescribes to be formed (1-p; alpha*y for the GEV).  Returns {which: (ref, lo, hi)} (mpf, possibly infinite)."""
    key = (fam, kind, tuple(bits(v) for v in args))
    if key in _CACHE:
        return _CACHE[key]
    _, npar, fx, fp, xn, pn = FAMILY[fam]
    f = fx if kind == "x" else fp
    a = [mpf(v) for v in args]
    ref = f(*a)
    lo, hi = dict(ref), dict(ref)

    def absorb(r, keys=None):
        for k in (keys if keys is not None else ref):
            v = r[k]
            if isinstance(v, mpf) and v == v:
                lo[k] = min(lo[k], v)
                hi[k] = max(hi[k], v)
    for i in range(len(a)):
        for s in (-1, 1):
            b = list(a)
            b[i] = mpf(nextafter(args[i], s * ulps))
            if kind == "p" and i == 0 and not (0 < b[0] < 1):
                continue
            try:
                absorb(f(*b))
            except (ValueError, ZeroDivisionError, TypeError):
                pass
    if kind == "p" and fam in ("exp", "wei", "gumbel"):
        # the code forms 1-p in binary64 (as the closed form -log(1-p) prescribes): p is known to 2^-53 absolutely
        keys = ("invcdf",) if fam != "gumbel" else (("invsurv",) if args[0] >= 5e-9 else ())
        for s in (-1, 1):
            b = list(a)
            b[0] = max(ZERO, a[0] + s * ulps * U / 2)
            if b[0] < 1:
                absorb(f(*b), keys)
    if fam == "gev" and a[3] != 0:
        if kind == "x":
            # the closed form is a function of ya1 = 1 + alpha*y, which any binary64 evaluation rounds
            y = a[2] * (a[0] - a[1])
            ya1 = 1 + a[3] * y
            # (the code evaluates log1p(alpha*y): only the product alpha*y is rounded, and 1+alpha*y for the support test)
            ends = [ya1 + s * 3 * ulps * U * abs(a[3] * y) for s in (-1, 1)]
            for e in ends:
                absorb(gev_x(a[0], a[1], a[2], a[3], ya1=e))
            if min(ends) <= 0 < max(ends):       # the band straddles the support bound: sweep down to it
                for k in range(1, 9):
                    absorb(gev_x(a[0], a[1], a[2], a[3], ya1=max(ends) * mpf(10) ** (-3 * k * k)))
    out = {k: (ref[k], lo[k], hi[k]) for k in ref}
    if len(_CACHE) > 200000:
        _CACHE.clear()
    _CACHE[key] = out
    return out


def judge(got, band, reltol, absfloor=0.0):
    """None if the double `got` is an acceptable rendering of the closed-form value; else a short reason.
       band = (ref, lo, hi) from reference_all: accepted is [lo - tol, hi + tol], tol = reltol*max|band| (+ floors);
       values beyond binary64's range are accepted as +-inf / 0."""
    ref, lo, hi = band
    if got != got:
        return "NaN"
    tol = reltol * max(abs(lo) if mpmath.isfinite(lo) else ZERO, abs(hi) if mpmath.isfinite(hi) else ZERO, abs(ref) if mpmath.isfinite(ref) else ZERO) + absfloor
    lo2, hi2 = lo - tol, hi + tol
    if math.isinf(got):
        if got > 0 and (hi == INF or hi > DBL_MAX / 4):
            return None
        if got < 0 and (lo == -INF or lo < -DBL_MAX / 4):
            return None
        return "infinite"
    g = mpf(got)
    if lo2 <= g <= hi2:
        return None
    if abs(g) < DBL_MIN * 8 and lo2 <= DBL_MIN * 8 and hi2 >= -DBL_MIN * 8:      # underflow: gradual or flushed, both fine
        return None
    if abs(g) > 1e307 and ((g > 0 and hi > DBL_MAX / 4) or (g < 0 and lo < -DBL_MAX / 4)):
        return None
    d = min(abs(g - lo), abs(g - hi)) if mpmath.isfinite(lo) and mpmath.isfinite(hi) else abs(g - ref)
    return "off by %s (rel %s), allowed %s beyond the band [%s, %s]" % (
        mpmath.nstr(d, 3), mpmath.nstr(d / abs(ref), 3) if ref != 0 and mpmath.isfinite(ref) else "-", mpmath.nstr(tol, 3),
        mpmath.nstr(lo, 17), mpmath.nstr(hi, 17))


# ------------------------------------------------------------------------------------------------
# mixtures: hyperexponential (components exp(mu, lambda_k)) and mixGEV (components gev(mu_k, lambda_k, alpha_k))
# ------------------------------------------------------------------------------------------------
def _lse(terms):
    terms = [t for t in terms if t != -INF]
    if not terms:
        return -INF
    if any(t == INF for t in terms):
        return INF
    m = max(terms)
    return m + mpmath.log(sum(mpmath.exp(t - m) if t - m > -1e5 else ZERO for t in terms))


def mix_reference(x, comps):
    """comps = [(q, fam, [params...])]; returns {which: (ref, lo, hi)} for pdf, logpdf, cdf, logcdf, surv, logsurv at x,
       the band being the same convex combination of the components' bands (all six are monotone in each component)."""
    key = ("mix", bits(x), tuple((bits(q), fam, tuple(bits(v) for v in par)) for q, fam, par in comps))
    if key in _CACHE:
        return _CACHE[key]
    parts = [(mpf(q), reference_all(fam, "x", [x] + list(par))) for q, fam, par in comps if q != 0]
    out = {}
    for w in ("pdf", "cdf", "surv"):
        out[w] = tuple(sum((q * r[w][i] for q, r in parts), ZERO) for i in range(3))
        lw = "log" + w
        out[lw] = tuple(_lse([_log(q) + r[lw][i] for q, r in parts]) for i in range(3))
    _CACHE[key] = out
    return out


def quantile_ok(xr, p, cdf_band, d, slack=1e-9):
    """is xr an acceptable answer of a bisection inverse: cdf(xr - d) - slack <= p <= cdf(xr + d) + slack"""
    lo = cdf_band(xr - d)[1]
    hi = cdf_band(xr + d)[2]
    return lo - slack <= p <= hi + slack, lo, hi
