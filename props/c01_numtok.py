"""C01 - the numeric payload of Stockholm `#=GS <seq> WT <w>` weights and `#=GF GA|NC|TC <x> [<y>]` cut-offs: token generators.

The reader converts with `esl_memtod` / `esl_memtof` = `strtod` on a NUL-terminated copy of the token (a 128-byte stack buffer for
tokens shorter than 128 bytes, the heap otherwise), cut-offs rounded a second time to float.  The model (Msafile/StoNum.lean) does the
same conversion in exact integer arithmetic; the tokens below sit where that can go wrong: every form the writers print (%.2f, %.1f, %g),
decimal strings at and next to the midpoint of two adjacent doubles / floats (ties-to-even, double rounding), the subnormal and overflow
thresholds, exponent fields of any size, tokens of 127 / 128 / 129 bytes, hexadecimal constants, prefixes followed by junk that
`esl_mem_IsReal` lets through, signed zeros, `inf` / `nan` prefixes, leading form feed / vertical tab / CR.
"""
import struct
from fractions import Fraction


def _d2f(bits):
    return struct.unpack("<d", struct.pack("<Q", bits))[0]


def _exact_decimal(fr, maxdigits=800):
    """the exact decimal expansion of a dyadic Fraction"""
    sign = "-" if fr < 0 else ""
    fr = abs(fr)
    ip = fr.numerator // fr.denominator
    rest = fr - ip
    digs = []
    while rest and len(digs) < maxdigits:
        rest *= 10
        d = rest.numerator // rest.denominator
        digs.append(str(d)); rest -= d
    return sign + str(ip) + ("." + "".join(digs) if digs else "")


def _bump(s, rng):
    """the decimal string moved by one unit in (or just after) its last place"""
    r = rng.random()
    if r < 0.34: return s
    if "." not in s: s += "."
    if r < 0.67: return s + "0" * rng.choice([0, 1, 5]) + "1"
    # one unit lower in the last place: ...d -> ...(d-1)9...9
    body = s.rstrip("0")
    if body.endswith("."): return s
    return body[:-1] + str(int(body[-1]) - 1) + "9" * rng.choice([1, 6, 30])


def midpoint_token(rng, single=False):
    """decimal string at / just above / just below the midpoint between two adjacent doubles (or floats)"""
    if single:
        b = rng.choice([rng.randrange(1, 0x7f7fffff), 0x3f800000 + rng.randrange(0, 16), rng.randrange(1, 0x00800010), 0x7f7fffff, 0x007fffff])
        x = Fraction(struct.unpack("<f", struct.pack("<I", b))[0]); y = Fraction(struct.unpack("<f", struct.pack("<I", b + 1))[0]) if b + 1 < 0x7f800000 else Fraction(2) ** 128
    else:
        b = rng.choice([rng.randrange(1, 0x7fefffffffffffff), 0x3ff0000000000000 + rng.randrange(0, 64), rng.randrange(1, 0x0010000000000010),
                        0x7fefffffffffffff, 0x000fffffffffffff, 0x3fb999999999999a, rng.randrange(0x3f00000000000000, 0x4100000000000000)])
        x = Fraction(_d2f(b)); y = Fraction(_d2f(b + 1)) if b + 1 < 0x7ff0000000000000 else Fraction(2) ** 1024
    s = _exact_decimal((x + y) / 2, 1100)
    if len(s) > 400 and rng.random() < 0.7:      # keep most of them short enough for a line: scientific notation of the same digits
        ip, _, fp = s.partition(".")
        digits = (ip + fp).lstrip("0");
        e = len(ip.lstrip("0")) - 1 if ip.strip("0") else -(len(fp) - len(fp.lstrip("0")) + 1)
        s = digits[0] + "." + digits[1:] + "e%d" % e
    s = _bump(s, rng)
    return ("-" if rng.random() < 0.2 else "") + s


def printf_token(rng):
    """what the writers (and people) print: %.2f, %.1f, %g, %e, integers"""
    x = rng.choice([rng.random(), rng.random() * 100, rng.random() * 1e6, rng.random() * 1e-4, rng.expovariate(1.0), 10 ** rng.uniform(-320, 308),
                    float(rng.randrange(0, 1000)), 0.005, 0.015, 0.025, 0.125, 2.675, 1.0, 0.0])
    if rng.random() < 0.15: x = -x
    return rng.choice(["%.2f", "%.2f", "%.1f", "%g", "%g", "%e", "%.17g", "%.3g", "%d.", "%.0f", "%E", "%G", "%+.2f"]) % x


ODD = ["-1", "-1.0", "-1.00", "-1e0", "-10e-1", "-0.1e1", "-1.0000000000000000000001", "-0.99999999999999999999999", "-0.99999999999999994", "-1.0000000000000002",
       "-0x1p0", "-0x.8p1", "-0X2P-1", "0x1.8p1", "0x1p-1074", "0x1p-1075", "0x1.0000000000001p-1075", "0x1p1024", "0x1.fffffffffffff8p1023", "0x1.fffffffffffff7p1023",
       "0x", "0x.", "0xg1", "0x.g1", "0x1p", "0x1p+", "0x1px1", "0x1.", "0x.8", "0x0.0p99999999999", "0x1p99999999999999999999", "0x1p-99999999999999999999",
       "-0", "-0.0", "+0", "0", "00", "-.0e5", ".5", "5.", "+.5e1", "-.", "+", "-x1", "x1", "1x", "1e", "1e+", "1e-", "1e+x1", "1ee1", "1.2.3", "1e1.5", "..1", ".e1",
       "1e400", "1e-400", "-1e400", "1e309", "1e308", "1.7976931348623157e308", "1.7976931348623158e308", "1.797693134862315807e308", "1.797693134862315808e308",
       "4.9e-324", "2.4703282292062327e-324", "2.4703282292062328e-324", "2.5e-324", "2.2250738585072014e-308", "2.2250738585072011e-308",
       "1e99999999999999999999", "1e-99999999999999999999", "0e99999999999999999999", "0.0000000000000000000000000000000000001e38", "100000000000000000000000000000e-29",
       "inf1", "-inf1", "INFINITY9", "Infinit1", "nan1", "-nan2", "NaN(123)4", "nan(0x7)1", "nan(1", "in1", "na1", "i1", "n1",
       "\x0c1.5", "\x0b2.5", "\r3.5", "\x0c-1", "1.5\x0c", "1\r", "1.5\x0b2", "\x0c\x0b\r7", "9\x7f", "\x801", "1\xff2",
       "3.4028235e38", "3.4028236e38", "3.40282356779733661637539395458142568448e38", "3.4028235677973367e38", "1.0000000596046447754", "1.00000005960464477539", "1.000000059604644775390625",
       "1.4e-45", "7.0064923216240853546186479164495806564013097093825788587853e-46", "7.01e-46", "7.0e-46", "1.17549435e-38", "16777217", "16777216.999999999", "33554434.000000001"]


def long_token(rng, n):
    """a valid real of exactly n bytes (the 128-byte fixed buffer of esl_memtod / esl_memtof)"""
    kind = rng.randrange(4)
    if kind == 0: s = "0" * (n - 4) + "1.25"
    elif kind == 1: s = "1." + "".join(rng.choice("0123456789") for _ in range(n - 2))
    elif kind == 2: s = "".join(rng.choice("123456789") for _ in range(n - 5)) + "e-%03d" % rng.randrange(0, 400)
    else: s = "0." + "0" * (n - 7) + "1e%03d" % (n - 10)
    return s[:n].ljust(n, "0")


def token(rng):
    r = rng.random()
    if r < 0.25: return printf_token(rng)
    if r < 0.45: return midpoint_token(rng, single=False)
    if r < 0.55: return midpoint_token(rng, single=True)
    if r < 0.85: return rng.choice(ODD)
    if r < 0.92: return long_token(rng, rng.choice([126, 127, 128, 129, 130, 255, 256, 257]))
    # random decimal soup
    return "".join(rng.choice("0123456789012345678901234567890123456789.eE+-x") for _ in range(rng.randrange(1, 40)))


def num_file(rng):
    """a small Stockholm file with numeric tokens on #=GS WT and #=GF GA/NC/TC lines; (bytes, tokens used)"""
    n = rng.choice([1, 2, 3, 5, 17])
    names = ["s%d" % i for i in range(n)]
    L = rng.choice([1, 4])
    out = ["# STOCKHOLM 1.0"]
    used = []
    tok = lambda: (used.append(token(rng)) or used[-1])
    for tag in rng.sample(["GA", "NC", "TC"], rng.choice([0, 1, 2, 3])):
        t1 = tok() if not (tag == "NC" and rng.random() < 0.15) else "undefined"
        out.append("#=GF %s %s" % (tag, t1) + (" " + tok() if rng.random() < 0.7 else "") + ("" if rng.random() < 0.9 else " ; trailing"))
    if rng.random() < 0.85:
        order = list(range(n))
        if rng.random() < 0.3: rng.shuffle(order)
        for i in order:
            out.append("#=GS %s WT %s" % (names[i], tok()))
            if rng.random() < 0.05: out.append("#=GS %s WT %s" % (names[i], tok()))         # second weight: accepted only after a -1.0
    if rng.random() < 0.3: out.append("#=GF GA %s" % tok())                                    # a cut-off set twice: the last one counts
    out.append("")
    for nm in names: out.append("%s %s" % (nm, "".join(rng.choice("ACGT-") for _ in range(L - 1)) + "A"))
    out.append("//")
    return ("\n".join(out) + "\n").encode("latin-1"), used
