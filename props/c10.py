"""C10 — each distribution's pdf, cdf, survival, log and inverse functions agree.
Model kind T: lean/EaselModel/Generated/Dist.lean is regenerated from the working tree by translate/c2lean.py on every
run; theorems (Props/C10.lean) are about those generated definitions at the `ℝ` instance; the `Float` instance of the
same definitions is executed (Driver/C10.lean) against the C functions (harness/h_dist.c) bit-for-bit.
Round 6: 111 functions translated - esl_gam_Sample too (a draw inside a do-while: the generator becomes the stream u : Nat -> a of variates).
Round 4: 110 functions translated (every pdf/cdf/surv/log*/inv*/generic_*/Sample of the ten files except esl_gam_Sample).
Round 3: 106 functions translated — the mixtures (esl_hxp_*, esl_mixgev_*, esl_vec_DMax/DMin/DLogSum: counted loops as folds,
parameter structures), the four bracketing + bisection inverses (do-while loops recursing on fuel) and the generic-API wrappers.
L0 support (NOT a theorem): props/c10_ref.py, mpmath at 50 digits, run as property monitors."""
import struct, os, sys, math, re
from vlib.engine import Prop, Failure
sys.path.insert(0, os.path.join(os.path.dirname(os.path.dirname(os.path.abspath(__file__))), "translate"))
import c2lean
from props import c10_ref as R
from props.c10_ref import dhex, unhex, nextafter

LOG_SMALLX1 = -math.log(5e-9)            # 19.11: exp(-y) = eslSMALLX1
HALF_LOG_EPS = -0.5 * math.log(2.2204460492503131e-16)   # 18.02: GEV surv/logsurv switch

# relative tolerance of the closed-form comparison per family: the code's own small-x switches cost 2.5e-9, the
# cancellation next to a switch ~2e-8; esl_stats_IncompleteGamma stops at 1e-7, esl_stats_LogGamma carries a 9-digit constant
RELTOL = {"exp": 1e-7, "gumbel": 1e-7, "gev": 1e-7, "wei": 1e-7, "sxp": 3e-6, "gam": 3e-6, "normal": 1e-9, "lognormal": 1e-9,
          "hxp": 1e-7, "mixgev": 1e-7}

Y_GRID = [0.0, 1e-300, 1e-100, 1e-30, 1e-20, 1e-17, 1e-16, 1e-15, 1e-12, 1e-10, 4e-9, 6e-9, 1e-8, 1e-6, 1e-4, 1e-3,
          0.01, 0.1, 0.3, 0.5, 0.7, 1.0, 1.5, 2.0, 2.9, 3.0, 4.0, 5.0, 7.0, 10.0, 15.0, 18.0, 18.1, 19.0, 19.2, 20.0, 25.0, 30.0,
          36.0, 37.0, 38.0, 40.0, 50.0, 100.0, 300.0, 500.0, 700.0, 709.0, 710.0, 745.0, 746.0, 1e3, 1e4, 1e6]
P_GRID = [1e-300, 1e-100, 1e-30, 1e-20, 1e-17, 1e-16, 1e-15, 1e-12, 1e-10, 4.9e-9, nextafter(5e-9, -1), 5e-9, nextafter(5e-9, 1),
          5.1e-9, 1e-8, 1e-6, 1e-4, 1e-3, 0.01, 0.1, 0.25, 0.5, 0.75, 0.9, 0.99, 0.999, 0.999999, 1 - 1e-9, 1 - 1e-12,
          1 - 2.0 ** -52, 1 - 2.0 ** -53]
LAM_GRID = [1e-3, 3e-3, 0.01, 0.03, 0.1, 0.3, 0.7, 1.0, 2.0, 5.0, 10.0, 30.0, 100.0, 300.0, 1e3]
TAU_GRID = [0.05, 0.1, 0.2, 0.3, 0.5, 0.7, 0.9, nextafter(1.0, -1), 1.0, nextafter(1.0, 1), 1.1, 1.5, 2.0, 3.0, 5.0, 10.0, 20.0]
ALPHA_GRID = [1e-15, 1e-13, 9.9e-13, nextafter(1e-12, -1), 1e-12, nextafter(1e-12, 1), 1.1e-12, 1e-11, 1e-9, 1e-7, 1e-5, 1e-3, 0.01, 0.1, 0.3, 0.5, 1.0, 2.0]
MU_GRID = [0.0, 0.0, 0.0, 1.0, -1.0, 1e-3, -1e-3, 10.0, -20.0, 100.0, -1e3, 1e3]


def _mixop(fam, fn, x, **kw):
    return "mix fam=%s fn=%s x=%s %s" % (fam, fn, dhex(x), " ".join("%s=%s" % (k, ",".join(dhex(float(v)) for v in vs)) for k, vs in kw.items()))


def op_f(fn, args):
    return "f fn=%s a=%s" % (fn, ",".join(dhex(float(v)) for v in args))


def parse_op(op):
    """generic-API wrappers (esl_<d>_generic_<f>) are judged as the function they forward to"""
    w = op.split()
    kv = dict(x.split("=", 1) for x in w[1:] if "=" in x)
    if "fn" in kv:
        kv["fn_raw"] = kv["fn"]
        kv["fn"] = kv["fn"].replace("_generic_", "_").replace("generic_", "")
    a = [unhex(t) for t in kv.get("a", "").split(",") if t and t != "-"]
    return w[0], kv, a


def parse_out(line):
    if not line.startswith("ok "):
        return None
    return [unhex(t) for t in line[3:].split(",") if t]


# genuine defects found while building this check, all repaired in /repo since (d0e1eed, 60d5965, 46f6f22, 7f8f7fd, 3a05169,
# c9193f2): their failing inputs stay in the corpus as regression witnesses
REGRESSION = [
    ("C10:esl_gam_logpdf:support-test-on-x", ["f fn=esl_gam_logpdf a=%s" % ",".join(dhex(v) for v in (-1.0, -5.0, 1.0, 2.0)),
                                               "f fn=esl_gam_logpdf a=%s" % ",".join(dhex(v) for v in (0.5, 2.0, 1.0, 2.0))]),
    ("C10:esl_gam_pdf:nan-at-mu-tau1", ["f fn=esl_gam_pdf a=%s" % ",".join(dhex(v) for v in (3.0, 3.0, 2.0, 1.0))]),
    ("C10:esl_gam_invcdf:bracket-from-zero", ["f fn=esl_gam_invcdf a=%s" % ",".join(dhex(v) for v in (0.01, -10.0, 1.0, 1.0))]),
    ("C10:esl_mixgev_invcdf:bracketing", [_mixop("mixgev", "invcdf", 0.5, q=[1.0], mu=[0.0], l=[1.0], al=[0.0]),
                                          _mixop("mixgev", "invcdf", 0.01, q=[1.0], mu=[0.0], l=[1.0], al=[0.0])]),
    ("C10:esl_hxp_invcdf:no-progress-loop", [_mixop("hxp", "invcdf", 1e-6, mu=[100.0], q=[1.0], l=[1000.0])]),
    ("C10:esl_sxp_invcdf:no-progress-loop", ["f fn=esl_sxp_invcdf a=%s" % ",".join(dhex(v) for v in (1e-6, -1000.0, 24.6, 1.77))]),
]


class C10(Prop):
    id = "C10"
    lean_modules = ["EaselModel.Props.C10"]
    lean_exe = "c10_driver"
    harness = "h_dist.c"
    # the library's calls to the primitive draws are routed through the harness (forced variates for `sampleof`, `mixsampleof`,
    # `gamsample`; pass-through otherwise)
    harness_flags = ["-Wl,--wrap=esl_rnd_UniformPositive", "-Wl,--wrap=esl_rnd_Gamma", "-Wl,--wrap=esl_rnd_Gaussian", "-Wl,--wrap=esl_rnd_DChoose"]
    theorems = ["EaselModel.Props.C10." + t for t in (
        "exp_cdf_monotone_0_to_1", "exp_textbook_laws", "exp_code_eq_textbook", "exp_code_cdf_add_surv", "exp_code_logs",
        "exp_outside_support", "sample_is_inverse_of_deviate",
        "gumbel_cdf_monotone_0_to_1", "gumbel_textbook_laws", "gumbel_code_eq_textbook", "gumbel_code_surv_switches",
        "gumbel_code_invsurv", "wei_textbook_laws", "wei_code_eq_textbook", "wei_outside_support",
        "gev_textbook_laws", "gev_code_eq_textbook", "gev_code_logsurv", "gev_gumbel_branch_is_gumbel_code", "gev_outside_support",
        "gam_laws_partial", "sxp_laws_partial", "normal_laws", "hxp_mixture_laws", "mixgev_mixture_laws", "vec_extremes", "gam_sxp_outside_support", "pdf_integrates_to_cdf_differences",
        "gev_gumbel_branch_distance", "bisection_inverses_generated", "bisection_inverses_bracket", "bisection_inverses_accuracy",
        "bisection_inverses_terminate", "bisection_inverses_real_reading_hangs_above_sup", "bisection_bracket_returns_at_infinity", "mixture_log_versions_partial", "incomplete_gamma_structure", "generic_api_forwards", "lognormal_laws", "gam_sxp_closed_forms",
        "gam_sxp_textbook_laws", "gam_sxp_code_vs_textbook", "gam_sxp_code_close", "mixture_full_laws",
        "mixture_sample_is_component_inverse", "transformed_samples", "sampler_primitive_arguments",
        "gam_sxp_inverse_laws", "mixgev_log_versions", "hxp_inverse_laws", "mixgev_code_close_everywhere", "inverse_right_and_samples",
        "bisection_total_generic", "hxp_invcdf_total", "sxp_gam_invcdf_total_partial", "mixgev_invcdf_total", "gam_sample_generated", "mixture_log_versions", "cdf_limits_wei_gev_mixgev", "mixgev_inverse_laws", "bisection_fuel_covers_binary64", "incomplete_gamma_series_converges", "hxp_invcdf_at_driver_fuel", "mixgev_invcdf_total_unconditional", "support_edge_values", "support_edge_branches", "wei_edge_is_density_limit")]
    claimed = True
    technique = ("Lean 4 proof about the C functions translated from the working tree on every run (clang-14 AST -> Lean, polymorphic "
                 "over a numeric class): real-analysis theorems at the R instance, the same definitions executed at Float bit-for-bit "
                 "against the ASan/UBSan-built C functions; 50-digit mpmath property monitors (L0 support, not a theorem)")
    level_text = ("L2 theorems: the textbook closed forms satisfy the laws (monotone 0->1, cdf+surv=1, inverses, HasDerivAt cdf pdf, integral of the pdf) - "
                  "for gamma / stretched exponential relative to the incomplete gamma function defined as an integral over Mathlib's Gamma kernel, for the "
                  "normal family relative to erfc built on the Gaussian integral, for both mixtures with any number of components. "
                  "L1 theorems: each translated esl_<dist>_* function, as a real function with its eslSMALLX1 branch switches, equals the "
                  "textbook form within an explicit epsilon (gamma / stretched exponential: exactly up to the two special-function discrepancies, which appear as "
                  "explicit terms); out-of-support values exactly for every carrier; every sampler = the stated transformation of the primitive variate it draws; "
                  "the bracketing+bisection inverses: bracket invariant, accuracy, termination (the repaired right bracket returns on every carrier that reaches +inf), "
                  "and since round 6 totality with an explicit fuel (log3 reach + log2 width/(1e-6 delta) passes, <= 2123 for any binary64-sized bracket, below the driver's 5000): "
                  "one fuel-independent value inside the six-digit band around the textbook quantiles of p -+ (code-vs-textbook distance of the cdf); every textbook cdf "
                  "runs from 0 to 1 (limits for Weibull, GEV, GEV mixture added); mixture log versions for every spread of the log-terms (what esl_vec_DLogSum's 500-window drops is <= K e^-500). "
                  "The translation is redone from the current source each run, so a changed function is re-proved or the obligation fails.")
    level_note = ("Trusted: Lean kernel + propext/Classical.choice/Quot.sound; clang-14's AST and the translator's operator/libm mapping "
                  "(checked, not proved, by the bit-exact Float run); L0 (binary64 rounding of the real-valued code) is supported only by the "
                  "bit-exact run plus 50-digit monitors with condition-number-scaled tolerances, accounted per branch of the translated code; "
                  "LogGamma/IncompleteGamma are the hand model of the C algorithm read over R: how far they are from log Gamma and from the "
                  "integrals P, Q is NOT proved (it enters gam_sxp_code_close as explicit epsilon, delta; monitored ~1e-9 / ~1e-7); erfc over R is the "
                  "mathematical erfc (Gaussian integral), that esl_stats_erfc agrees with it is L0; the loops of the four bisection inverses carry a fuel "
                  "argument, but from an explicit fuel on (BisectTotal.fuelRight/fuelGam/fuelMix: log3 of the reach + log2 of width/(1e-6 delta) passes) the "
                  "translated functions return one fuel-independent value over R (hxp and mixgev unconditionally; sxp/gam given the named hypothesis "
                  "InvTotal.IncGammaPWithin); esl_rnd_Gamma / esl_rnd_Gaussian / esl_rnd_DChoose are not modelled here: the samplers are functions of "
                  "the variate (and component) they yield.")
    trusted_base = ["translate/c2lean.py: clang-14 JSON AST -> Lean (operators, libm names, literals from source text); tied by running every "
                    "translated function at Float against the C function bit-for-bit (harness/h_dist.c, ASan+UBSan build of the working tree)",
                    "Lean compiler/runtime and the system libm for the executable driver; gcc -O1 -ffp-contract=off",
                    "mpmath 1.3 at 50 digits for the L0 monitors (closed forms re-stated in props/c10_ref.py)"]
    assumptions = ["NAMED special-function hypotheses that remain (stated as hypotheses of the theorems that use them, never as axioms): "
                   "InvTotal.IncGammaPWithin a eps (esl_stats_IncompleteGamma's P, hand model over R, within eps of the regularised incomplete gamma integral for all y > 0) "
                   "in sxp_gam_invcdf_total_partial; |Num.logGamma a - log Gamma a| <= eps and |Num.incGammaP/Q a y - P/Q a y| <= delta at the arguments used in "
                   "gam_sxp_code_close; (realIncGamma a y).isSome (the algorithm converges within its 99 / 9999 iterations) in gam_laws_partial / sxp_laws_partial - "
                   "PROVED for the series branch 0 <= y <= a+1 with 0 < a <= 20 (incomplete_gamma_series_converges), still a hypothesis on the continued-fraction "
                   "branch y > a+1 and for shapes above 20",
                   "struct parameters (ESL_HYPEREXP, ESL_MIXGEV) are Lean structures with the members the translated functions use; arrays are "
                   "lists read with getD (default 0.0) and written with List.set: theorems carry K <= length where a store matters; the scratch "
                   "vector wrk is local to one call (its contents are not carried across calls)",
                   "`if (esl_stats_IncompleteGamma(...) != eslOK) return eslNaN;` (and the same for esl_stats_LogGamma) translates to the same term as the "
                   "unchecked call: Num.incGammaP/Q, Num.logGamma denote the junk value (NaN at Float, an opaque real over R) exactly where the C function fails, "
                   "and every use of the result propagates it; the sites folded are listed under status_checked_special_calls",
                   "samplers: the one primitive draw (esl_rnd_UniformPositive / esl_rnd_Gamma / esl_rnd_Gaussian) becomes the parameter u, the arguments handed "
                   "to it are translated too (<fn>_draw) and compared with the C call (ld --wrap interception); esl_rnd_DChoose's result becomes the parameter k; "
                   "esl_gam_Sample's redraw loop is translated with the generator as the stream u : Nat -> a of Gamma variates (iteration i reads u i; fuel = number of variates supplied)",
                   "binary64 reaches +inf in the tripling bracket only for |mu| < 2^53 (beyond, mu + 1. == mu and the C loop itself never ends); the property's "
                   "location range is +-10^3",
                   "no denormal arguments are generated (e.g. esl_lognormal_pdf(5e-324, mu, 0.5) is 0/0 = NaN because x*sigma underflows - outside any documented range)",
                   "bisection termination over R needs cdf < p on [mu, mu+delta] (p not attained at the support edge): otherwise the real loop "
                   "never stops (proved) and the C code relies on its binary64 no-progress break; fuel 5000 per loop in the driver",
                   "L0: IEEE-754 evaluation of the translated real function is close to its real value - not proved; monitored",
                   "Real.log is total (log 0 = 0): every theorem through a log carries the guard that makes the C argument positive",
                   "eslINFINITY is an opaque real constant: branches returning +-inf are stated symbolically",
                   "esl_exp_invcdf / esl_wei_invcdf / esl_gumbel_invsurv form 1-p in binary64: p is resolved to 2^-53 absolutely (monitors allow that)"]
    rule = ("case = one parameter tuple of one family: all x-functions on a grid of arguments (support edge, every branch threshold +-2 ulp, "
            "log-spaced tails, random draws), inverse functions on a p-grid (incl. eslSMALLX1 +-1 ulp), round trips, derivative triples, samples; "
            "every `f` answer of the model carries the number of the `return` statement reached (twin function generated with the translation): the "
            "evidence lists, per function and branch, how many closed-form comparisons landed there, and which branch switches were hit between adjacent doubles; "
            "non-trivial = every op answered and at least one finite value other than 0/1; distinct by output trace")
    diverge_is_violation = True     # every op is a deterministic function; the model IS the translated source (see compare)
    quick_budget_s = 90
    thorough_budget_s = 900

    families_T = ("exp", "gumbel", "gev", "wei")        # translated + executed bit-for-bit
    families_M = ("sxp", "gam", "normal", "lognormal")  # scalar API, monitored (and translated where TRANSLATED says so)

    def generated(self, ctx):
        text, info = c2lean.translate_all(ctx.src, c2lean.FAMILIES)
        self.tinfo = info
        return {"EaselModel/Generated/Dist.lean": text,
                "EaselModel/Generated/ErfcCoef.lean": c2lean.erfc_coefficients(ctx.src)}

    # Kind-T functions over the elementary operations only (exp, gumbel, gev, wei, lognormal) are compared bit-for-bit: the
    # model is regenerated from the source, so any difference is a translator/semantics error.  Operations that go through a
    # HAND model (esl_stats_LogGamma / IncompleteGamma / erfc, the mixture loops, esl_vec_DLogSum) are compared numerically:
    # a harmless re-implementation of those algorithms (other series cut-off, summation order, libm erfc) must not alarm,
    # and anything larger is far above these bounds (and is also judged by the closed-form monitors).
    H_TOL = {"sxp": (1e-5, 1e-12), "gam": (1e-5, 1e-12), "normal": (1e-11, 0.0),
             "esl_stats_LogGamma": (1e-9, 1e-8), "esl_stats_IncGammaP": (1e-5, 1e-12), "esl_stats_IncGammaQ": (1e-5, 1e-12),
             "esl_stats_erfc": (1e-11, 0.0),
             # the translated bisection inverses of sxp / gam call the hand-modelled IncompleteGamma: stop at relative width 1e-6
             "esl_sxp_invcdf": (1e-5, 1e-9), "esl_gam_invcdf": (1e-5, 1e-9)}
    # (round 3: the mixtures esl_hxp_* / esl_mixgev_* incl. esl_vec_DLogSum and all four bisection inverses are TRANSLATED,
    #  so `mix` operations are compared bit-for-bit)

    NAN_RE = re.compile(r"\b[7f]ff(?!0{13})[0-9a-f]{13}\b")

    @classmethod
    def canon_nan(cls, line):
        return cls.NAN_RE.sub("7ff8000000000000", line) if line.startswith("ok ") else line

    @staticmethod
    def close(a, b, rel, ab):
        if a == b or (a != a and b != b):
            return True
        if math.isinf(a) or math.isinf(b) or a != a or b != b:
            return (abs(a) > 1e300 and abs(b) > 1e300 and (a > 0) == (b > 0))
        return abs(a - b) <= rel * max(abs(a), abs(b)) + ab + 1e-305

    def compare(self, ctx, case, impl_out, model_out):
        """see H_TOL; operations on functions outside the modelled set are monitor-only (the driver answers `unmodelled`),
           but a function that IS in the translated set must be answered by the model."""
        must = set(getattr(self, "tinfo", {}).get("functions", []))
        n = max(len(impl_out), len(model_out))
        cov = self.__dict__.setdefault("leafcov", {})
        axis = {}            # (fn, parameters) -> [(first argument, branch)]
        for i in range(min(n, len(model_out), len(case["ops"]))):
            m = re.search(r" b=(\d+)$", model_out[i])
            if m:
                model_out = list(model_out) if not isinstance(model_out, list) else model_out
                model_out[i] = model_out[i][:m.start()]
                w = case["ops"][i].split()
                kvs = dict(x.split("=", 1) for x in w[1:] if "=" in x)
                # accounted only where the implementation answered and the value was judged by the closed-form monitor
                if i < len(impl_out) and impl_out[i].startswith("ok ") and R.split_fn(kvs.get("fn", "").replace("_generic_", "_"))[0]:
                    cov.setdefault(kvs["fn"], {})[int(m.group(1))] = cov.setdefault(kvs["fn"], {}).get(int(m.group(1)), 0) + 1
                    first, _, rest = kvs.get("a", "").partition(",")
                    axis.setdefault((kvs["fn"], rest), []).append((unhex(first), int(m.group(1))))
        tr = self.__dict__.setdefault("leaftrans", {})
        for (fn_, _), pts_ in axis.items():
            pts_ = sorted(set(pts_))
            for (x1, l1), (x2, l2) in zip(pts_, pts_[1:]):
                if l1 != l2 and x1 == x1 and x2 == x2:
                    e = tr.setdefault(fn_, {}).setdefault("%d|%d" % (l1, l2), [0, 0, 0])
                    e[0] += 1
                    if nextafter(x1, 4) >= x2:
                        e[2] += 1            # a genuine switch: the two points are at most 4 ulp apart
                    if nextafter(x1, 1) == x2:
                        e[1] += 1
        for i in range(n):
            a = impl_out[i] if i < len(impl_out) else "<missing>"
            b = model_out[i] if i < len(model_out) else "<missing>"
            if self.canon_nan(a) == self.canon_nan(b):      # NaN: sign and payload are not part of the comparison (Lean prints the canonical one)
                continue
            kind, kv, _ = parse_op(case["ops"][i]) if i < len(case["ops"]) else ("", {}, [])
            fns = kv.get("fn", "").split(",")
            if b == "unmodelled":
                if kind in ("f", "f2") and not any(f in must for f in fns) and fns[0] not in self.H_TOL:
                    continue
                if kind == "sample" and fns[0] in ("esl_sxp_Sample", "esl_gam_Sample", "esl_lognormal_Sample"):
                    continue
            tol = None
            if kind in ("f", "f2"):
                tol = self.H_TOL.get(fns[0]) or self.H_TOL.get(R.split_fn(fns[0])[0])
            if a.startswith("exception e") and kind == "f" and R.split_fn(fns[0])[0] in ("sxp", "gam"):
                # esl_stats_IncompleteGamma / esl_stats_LogGamma threw (eslENOHALT at x = inf / NaN, eslERANGE): the harness reports the
                # exception instead of the value (since 8c29128 / 095f528 the cdf/surv callers return eslNaN there; the pdf callers
                # still use the unset result); the model's Float instance answers NaN where the hand model of the algorithm yields `none`
                vb = parse_out(b)
                if vb is not None and len(vb) == 1 and vb[0] != vb[0]:
                    self.__dict__.setdefault("threw_as_nan", [0])[0] += 1
                    continue
            va, vb = parse_out(a), parse_out(b)
            if tol and va is not None and vb is not None and len(va) == len(vb) and all(self.close(x, y, *tol) for x, y in zip(va, vb)):
                self.__dict__.setdefault("hdrift", [0])[0] += 1
                continue
            return (i, a, b)
        return None

    # ------------------------------------------------------------------------------------------
    # generator
    # ------------------------------------------------------------------------------------------
    def logu(self, rng, lo, hi):
        return math.exp(rng.uniform(math.log(lo), math.log(hi)))

    def params(self, fam, rng, canonical=False):
        if canonical:
            mu, lam = 0.0, 1.0
        else:
            mu = rng.choice(MU_GRID) if rng.random() < 0.7 else rng.choice([-1, 1]) * self.logu(rng, 1e-3, 1e3)
            lam = rng.choice(LAM_GRID) if rng.random() < 0.6 else self.logu(rng, 1e-3, 1e3)
        if fam in ("exp", "gumbel", "normal"):
            return [mu, lam]
        if fam == "lognormal":
            return [rng.choice([0.0, 1.0, -1.0, 4.8, rng.uniform(-5, 5)]), rng.choice([0.1, 0.5, 0.7, 1.0, 2.0, self.logu(rng, 0.05, 5)])]
        if fam == "gev":
            al = rng.choice(ALPHA_GRID) if rng.random() < 0.7 else self.logu(rng, 1e-15, 2.0)
            return [mu, lam, al * rng.choice([-1, 1])]
        tau = rng.choice(TAU_GRID) if rng.random() < 0.6 else self.logu(rng, 0.05, 20.0)
        return [mu, lam, tau]

    def thresholds(self, fam, par):
        """standardised arguments y = lambda (x - mu) at which the implementation switches branch"""
        t = [0.0]
        if fam == "exp":
            t += [5e-9, LOG_SMALLX1]
        elif fam == "gumbel":
            t += [LOG_SMALLX1, -math.log(LOG_SMALLX1)]
        elif fam == "gev":
            al = par[2]
            t += [1e-12 / abs(al), -1e-12 / abs(al), HALF_LOG_EPS, -2.9, -1.0 / al]
            for v in (HALF_LOG_EPS, -2.9, LOG_SMALLX1):
                try:
                    t.append(math.expm1(v * al) / al)
                except OverflowError:
                    pass
        elif fam in ("wei", "sxp"):
            tau = par[2]
            for v in (5e-9, LOG_SMALLX1, 1.0):
                try:
                    t.append(v ** (1.0 / tau))
                except OverflowError:
                    pass
            if fam == "sxp":
                t.append((1.0 / tau + 1.0) ** (1.0 / tau))        # series / continued-fraction switch x = a+1
        elif fam == "gam":
            t += [par[2] + 1.0, par[2]]
        elif fam == "normal":
            t += [0.84375 * math.sqrt(2), 1.25 * math.sqrt(2), 28 * math.sqrt(2), 6 * math.sqrt(2), 38.0, 39.0]
        return [v for v in t if abs(v) < 1e300]

    def x_points(self, fam, par, rng, n_grid, n_rand):
        mu, lam = par[0], par[1]
        scale = lam if fam == "normal" else 1.0 / lam
        if fam == "lognormal":
            # (no denormal arguments, as for the other families: esl_lognormal_pdf(5e-324, mu, 0.5) is 0/0 = NaN because x*sigma underflows)
            xs = [0.0, 2.2250738585072014e-308, 1e-300, 1e-10, 1e-3, 0.1, 0.5, 1.0, 2.0, 10.0, 121.5, 1e3, 1e10, 1e300, math.exp(par[0])]
            xs += [self.logu(rng, 1e-6, 1e6) for _ in range(n_rand)]
            return sorted(set(xs))
        ys = set()
        for v in self.thresholds(fam, par):
            x0 = mu + v * scale
            for k in (-2, -1, 0, 1, 2):
                xk = nextafter(x0, k)
                if xk == mu or abs(xk - mu) * lam >= 1e-300:        # no denormal standardised arguments
                    ys.add(xk)
            ys.add(mu + v * (1 + 1e-9) * scale); ys.add(mu + v * (1 - 1e-9) * scale)
        grid = rng.sample(Y_GRID, min(n_grid, len(Y_GRID)))
        if fam in ("sxp", "gam"):       # y^tau must stay inside binary64 for the incomplete-gamma argument
            grid = [v for v in grid if v == 0.0 or 1e-30 <= v <= 1e4]
        onesided = fam in ("exp", "wei", "sxp", "gam")
        for v in grid:
            ys.add(mu + v * scale)
            if not onesided or rng.random() < 0.15:
                ys.add(mu - v * scale)
        for _ in range(n_rand):
            v = self.logu(rng, 1e-12, 800.0) if rng.random() < 0.5 else rng.uniform(0, 12)
            s = -1 if (not onesided and rng.random() < 0.5) or rng.random() < 0.05 else 1
            ys.add(mu + s * v * scale)
        if fam == "gev":             # keep points on both sides of the support bound
            b = mu - 1.0 / (par[2] * lam)
            for f in (0.5, 0.9, 0.999, 1.001, 1.1, 2.0):
                ys.add(mu + (b - mu) * f)
        if fam == "sxp":                # y^tau must stay inside binary64 (it is the incomplete-gamma argument)
            ys = {v for v in ys if v <= mu or (v - mu) * lam <= 0 or abs(par[2] * math.log10((v - mu) * lam)) < 290}
        return sorted(v for v in ys if math.isfinite(v))

    def make_case(self, fam, par, rng, name, n_grid=12, n_rand=6, n_p=8, deriv=2, samples=True):
        pre, npar, fx, fp, xn, pn = R.FAMILY[fam]
        ops = []
        xs = self.x_points(fam, par, rng, n_grid, n_rand)
        for x in xs:
            for w in xn:
                ops.append(op_f(pre + w, [x] + par))
        # the generic API (x, void *params) forwards to the same functions
        if fam != "lognormal" and xs:
            for x in rng.sample(xs, min(3, len(xs))):
                for w in ("pdf", "cdf", "surv"):
                    ops.append(op_f(pre + "generic_" + w, [x] + par))
            if fam != "normal":
                ops.append(op_f(pre + "generic_invcdf", [rng.choice([0.5, 0.1, 0.9, rng.random()])] + par))
        # derivative triples in the bulk
        if "cdf" in xn and deriv:
            scale = par[1] if fam == "normal" else 1.0 / par[1]
            for _ in range(deriv):
                x = par[0] + scale * (rng.uniform(0.05, 3.0) if fam != "normal" and fam != "gumbel" and fam != "gev" else rng.uniform(-1.5, 3.0))
                h = scale * 2.0 ** -17
                for xx in (x - h, x, x + h):
                    ops.append(op_f(pre + "cdf", [xx] + par))
                ops.append(op_f(pre + "pdf", [x] + par))
        if pn:
            ps = rng.sample(P_GRID, min(n_p, len(P_GRID))) + [rng.random() for _ in range(3)] + [self.logu(rng, 1e-18, 0.5)]
            for p in ps:
                for w in pn:
                    ops.append(op_f(pre + w, [p] + par))
                ops.append("f2 fn=%scdf,%sinvcdf a=%s" % (pre, pre, ",".join(dhex(v) for v in [p] + par)))
                if "invsurv" in pn:
                    ops.append("f2 fn=%ssurv,%sinvsurv a=%s" % (pre, pre, ",".join(dhex(v) for v in [p] + par)))
            # inverse after forward, in the bulk
            for _ in range(3):
                x = float(R.reference_all(fam, "p", [rng.uniform(0.05, 0.95)] + par)["invcdf"][0])
                ops.append("f2 fn=%sinvcdf,%scdf a=%s" % (pre, pre, ",".join(dhex(v) for v in [x] + par)))
        if fam in ("sxp", "gam"):
            # p = 0: the real-number bisection never stops (bisection_inverses_terminate); the C loop must, by its no-progress break
            for p in [0.5, rng.random(), rng.choice([1e-6, 1e-3, 0.01, 0.1, 0.9, 0.99, 0.999999]), rng.choice([0.0, 1e-300, 1e-17])]:
                ops.append(op_f(pre + "invcdf", [p] + par))
        if samples and fam in ("sxp", "gam", "lognormal") and rng.random() < 0.5:
            # samplers that do not go by inversion (esl_rnd_Gamma / esl_rnd_Gaussian): Kolmogorov-Smirnov against the closed-form cdf
            ops.append("sample fn=%sSample seed=%d k=400 a=%s" % (pre, rng.randrange(1, 2 ** 32), ",".join(dhex(v) for v in par)))
        if samples and fam in ("exp", "gumbel", "gev", "wei"):
            seed = rng.choice([1, 42, 2 ** 32 - 1, rng.randrange(1, 2 ** 32)])
            k = rng.choice([1, 3, 8])
            ops.append("unipos seed=%d k=%d" % (seed, k))
            ops.append("sample fn=%sSample seed=%d k=%d a=%s" % (pre, seed, k, ",".join(dhex(v) for v in par)))
        # the TRANSLATED sampler on a forced primitive variate (every family; the harness intercepts the library's draw)
        if samples and fam in ("exp", "gumbel", "gev", "wei"):
            for u in rng.sample(P_GRID, 3) + [rng.random(), 1 - 2.0 ** -32, 2.0 ** -32]:      # the ends of esl_rnd_UniformPositive's range
                ops.append("sampleof fn=%sSample u=%s a=%s" % (pre, dhex(u), ",".join(dhex(v) for v in par)))
        if samples and fam == "sxp":
            for t in [self.logu(rng, 1e-8, 60.0), rng.gammavariate(1.0 / par[2], 1.0), rng.choice([1e-300, 1.0, 1e-30, 700.0])]:
                if t > 0.0:
                    ops.append("sampleof fn=esl_sxp_Sample u=%s a=%s" % (dhex(t), ",".join(dhex(v) for v in par)))
        if samples and fam == "lognormal":
            for g in [rng.gauss(0, 1), rng.uniform(-8, 8), rng.choice([0.0, -38.0, 38.0, 1e-300])]:
                ops.append("sampleof fn=esl_lognormal_Sample u=%s a=%s" % (dhex(g), ",".join(dhex(v) for v in par)))
        if samples and fam == "gam":
            # the redraw loop: variates whose mu + t/lambda rounds back to mu are drawn again
            tiny = abs(par[0]) * par[1] * 2.0 ** -55
            streams = [[rng.gammavariate(par[2], 1.0)], [0.0, 0.0, rng.gammavariate(par[2], 1.0)], [tiny, tiny * 0.5, 0.0, self.logu(rng, 1e-3, 30.0)],
                       [tiny * 3.9, tiny * 4.1, 1.0], [1e-320, 2.5]]
            for ts in streams:
                ops.append("gamsample fn=esl_gam_Sample t=%s a=%s" % (",".join(dhex(t) for t in ts), ",".join(dhex(v) for v in par)))
        return {"name": name, "ops": ops, "sticky": 0}

    @staticmethod
    def known_gam(which, x, par):
        """arguments in the region of the known findings on esl_gam_logpdf / esl_gam_pdf (kept out of generated cases)"""
        if which == "logpdf" and (x < 0.0 or x < par[0]):
            return True
        if which in ("pdf", "logpdf") and x == par[0] and par[2] == 1.0:
            return True
        return False

    def mix_params(self, fam, rng):
        K = rng.randrange(1, 6)
        q = [rng.choice([0.0, rng.random(), rng.random(), self.logu(rng, 1e-6, 1.0)]) for _ in range(K)]
        if sum(q) == 0:
            q[rng.randrange(K)] = 1.0
        t = sum(q)
        q = [v / t for v in q]
        if fam == "hxp":
            mu = rng.choice(MU_GRID)
            lam = [rng.choice(LAM_GRID) if rng.random() < 0.5 else self.logu(rng, 1e-3, 1e3) for _ in range(K)]
            return {"q": q, "mu": [mu], "l": lam}
        mu = [rng.choice([0.0, 1.0, -1.0, 5.0, -20.0, rng.uniform(-10, 10)]) for _ in range(K)]
        lam = [rng.choice([0.1, 0.5, 1.0, 2.0, 10.0, self.logu(rng, 1e-2, 1e2)]) for _ in range(K)]
        al = [rng.choice([1e-13, -1e-13, 0.1, -0.1, 0.5, -0.5, 1e-3, -1e-3, 1.0, self.logu(rng, 1e-6, 1.0) * rng.choice([-1, 1])]) for _ in range(K)]
        return {"q": q, "mu": mu, "l": lam, "al": al}

    def mix_args(self, fam, mp_):
        def L(v):
            return ",".join(dhex(x) for x in v)
        if fam == "hxp":
            return "mu=%s q=%s l=%s" % (dhex(mp_["mu"][0]), L(mp_["q"]), L(mp_["l"]))
        return "q=%s mu=%s l=%s al=%s" % (L(mp_["q"]), L(mp_["mu"]), L(mp_["l"]), L(mp_["al"]))

    def make_mix_case(self, fam, rng, name, n_x=14):
        mp_ = self.mix_params(fam, rng)
        args = self.mix_args(fam, mp_)
        K = len(mp_["q"])
        xs = set()
        for k in range(K):
            mu = mp_["mu"][0] if fam == "hxp" else mp_["mu"][k]
            sc = 1.0 / mp_["l"][k]
            for v in rng.sample(Y_GRID, 5) + [rng.uniform(0, 8), self.logu(rng, 1e-10, 700.0)]:
                xs.add(mu + v * sc)
                if fam == "mixgev" or rng.random() < 0.1:
                    xs.add(mu - v * sc)
            for kk in (-1, 0, 1):
                xs.add(nextafter(mu, kk))
            if fam == "mixgev":
                b = mu - sc / mp_["al"][k]
                if math.isfinite(b):
                    xs.update([b, nextafter(b, 2), nextafter(b, -2), mu + (b - mu) * 0.9, mu + (b - mu) * 1.1])
        xs = sorted(v for v in xs if math.isfinite(v))
        if len(xs) > n_x * 2:
            xs = sorted(rng.sample(xs, n_x * 2))
        ops = []
        for x in xs:
            for w in ("pdf", "logpdf", "cdf", "logcdf", "surv", "logsurv"):
                ops.append("mix fam=%s fn=%s x=%s %s" % (fam, w, dhex(x), args))
        for x in rng.sample(xs, min(3, len(xs))):
            for w in ("generic_pdf", "generic_cdf", "generic_surv"):
                ops.append("mix fam=%s fn=%s x=%s %s" % (fam, w, dhex(x), args))
        ops.append("mix fam=%s fn=generic_invcdf x=%s %s" % (fam, dhex(rng.choice([0.5, 0.1, 0.9])), args))
        ops.append("mixsample fam=%s seed=%d k=%d %s" % (fam, rng.choice([1, 42, rng.randrange(1, 2 ** 32)]), rng.choice([1, 4, 9]), args))
        for k in sorted(set([0, K - 1, rng.randrange(K)])):      # the TRANSLATED esl_hxp_Sample / esl_mixgev_Sample: component k forced, deviate forced
            for u in (rng.random(), rng.choice(P_GRID)):
                ops.append("mixsampleof fam=%s k=%d u=%s %s" % (fam, k, dhex(u), args))
        if True:
            for p in (0.5, rng.random(), rng.choice([1e-6, 1e-3, 0.01, 0.1, 0.9, 0.99, 0.9999])):
                ops.append("mix fam=%s fn=invcdf x=%s %s" % (fam, dhex(p), args))
            if fam == "mixgev":     # p = 1: at or above the largest value the cdf attains (coefficients sum to 1 only to rounding)
                ops.append("mix fam=%s fn=invcdf x=%s %s" % (fam, dhex(1.0), args))
            if fam == "hxp":        # the ends of the p range: p = 0 converges onto mu by the no-progress break, p = 1 brackets out to +inf
                qsum = 0.0
                for v in mp_["q"]:
                    qsum += v * 1.0
                for p in (0.0, 1.0):      # p = 1 above sum q: bracketing stops at +inf since 55bbf88
                    ops.append("mix fam=%s fn=invcdf x=%s %s" % (fam, dhex(p), args))
        return {"name": name, "ops": ops, "sticky": 0}

    def make_special_case(self, rng, name):
        """the special functions under the gamma/normal families, model vs code bit-for-bit (hand model Dist/Special.lean;
           erfc: the libm symbol against esl_stats_erfc, the same Sun code)"""
        ops = []
        for _ in range(40):
            x = rng.choice([self.logu(rng, 0.04, 30.0), self.logu(rng, 1e-3, 1e3), rng.choice(TAU_GRID), 1.0 / rng.choice(TAU_GRID)])
            ops.append(op_f("esl_stats_LogGamma", [x]))
        for _ in range(60):
            a = rng.choice([self.logu(rng, 0.04, 25.0), rng.choice(TAU_GRID), 1.0 / rng.choice(TAU_GRID)])
            x = rng.choice([a + 1.0, nextafter(a + 1.0, 1), nextafter(a + 1.0, -1), self.logu(rng, 1e-12, 200.0), a * rng.uniform(0.2, 3.0), 0.0])
            ops.append(op_f("esl_stats_IncGammaP", [a, x]))
            ops.append(op_f("esl_stats_IncGammaQ", [a, x]))
        for t in (0.84375, 1.25, 1 / 0.35, 6.0, 28.0, 2.0 ** -56, 0.25, 0.0):
            for k in (-1, 0, 1):
                for sgn in (-1, 1):
                    ops.append(op_f("esl_stats_erfc", [sgn * nextafter(t, k)]))
        for _ in range(60):
            ops.append(op_f("esl_stats_erfc", [rng.choice([-1, 1]) * rng.choice([self.logu(rng, 1e-20, 30.0), rng.uniform(0, 7)])]))
        return {"name": name, "ops": ops, "sticky": 0}

    def make_vec_case(self, rng, name):
        """esl_vec_DMax / DMin / DLogSum (translated; the mixtures' log versions go through them): ties, a single entry,
           -inf entries (q_k = 0), a +inf entry, entries on both sides of the 500-window below the maximum"""
        ops = []
        for _ in range(30):
            n = rng.choice([1, 1, 2, 3, 4, 6, 9])
            top = rng.choice([0.0, -3.0, 700.0, -700.0, rng.uniform(-50, 50), -1e5])
            v = []
            for _ in range(n):
                c = rng.random()
                if c < 0.45:
                    v.append(top - abs(rng.gauss(0, 5)))
                elif c < 0.6:
                    v.append(top)
                elif c < 0.75:
                    v.append(nextafter(top - 500.0, rng.choice([-2, -1, 0, 1, 2])))
                elif c < 0.85:
                    v.append(-math.inf)
                elif c < 0.88:
                    v.append(math.inf)
                else:
                    v.append(top - rng.uniform(400, 800))
            rng.shuffle(v)
            for fn in ("DMax", "DMin", "DLogSum"):
                ops.append("vec fn=%s v=%s" % (fn, ",".join(dhex(x) for x in v)))
        return {"name": name, "ops": ops, "sticky": 0}

    EDGE_PARAMS = {"exp": [[0.0, 1.0], [3.0, 2.0], [-1e3, 1e-3]], "gumbel": [[0.0, 1.0], [-20.0, 0.7]],
                   "gev": [[0.0, 1.0, 0.5], [0.0, 1.0, -0.5], [1.0, 2.0, 1e-13], [0.0, 1.0, 0.0], [-4.0, 0.5, -1.0]],
                   "wei": [[0.0, 1.0, 0.7], [3.0, 2.0, 2.0], [0.0, 1.0, 1.0]], "sxp": [[0.0, 1.0, 0.5], [3.0, 2.0, 2.0]],
                   "gam": [[0.0, 1.0, 0.5], [3.0, 2.0, 2.0], [0.0, 1.0, 1.0]], "normal": [[0.0, 1.0], [3.0, 2.0]], "lognormal": [[0.0, 1.0], [1.0, 0.5]]}
    EDGE_P = [0.0, 5e-324, 2.2250738585072014e-308, nextafter(0.5, -1), 0.5, nextafter(0.5, 1), 1 - 2.0 ** -53, 1.0]

    def edge_cases(self):
        """Round 6, tie only (model vs code bit-for-bit, NaN as NaN; the closed-form monitors do not judge arguments outside the
           documented range): every x-function at x = +inf, -inf, NaN, x = mu exactly and mu +- 1 ulp; every inverse at
           p in {0, 5e-324, DBL_MIN, 1/2 +- 1 ulp, 1 - 2^-53, 1, NaN}; the mixtures at the same arguments."""
        INF, NAN = math.inf, math.nan
        out = []
        for fam, pars in self.EDGE_PARAMS.items():
            pre, npar, fx, fp, xn, pn = R.FAMILY[fam]
            ops = []
            for par in pars:
                for x in (INF, -INF, NAN, par[0], nextafter(par[0], 1), nextafter(par[0], -1)):
                    for w in xn:
                        ops.append(op_f(pre + w, [x] + par))
                for p in self.EDGE_P + [NAN]:
                    for w in pn:
                        ops.append(op_f(pre + w, [p] + par))
            out.append({"name": "edge-nonfinite-%s" % fam, "ops": ops, "tie_only": True})
        # invalid / non-finite PARAMETERS (each in turn 0, -1, +inf, -inf, NaN), x-functions only (the inverses' loops need a cdf):
        # the model is the translated source, so these exercise the translator's comparison / NaN semantics, nothing else
        for fam, par in (("exp", [0.0, 1.0]), ("gumbel", [0.0, 1.0]), ("gev", [0.0, 1.0, 0.5]), ("wei", [0.0, 1.0, 0.7]), ("sxp", [0.0, 1.0, 0.5]),
                         ("gam", [0.0, 1.0, 2.0]), ("normal", [0.0, 1.0]), ("lognormal", [0.0, 1.0])):
            pre, npar, fx, fp, xn, pn = R.FAMILY[fam]
            ops = []
            for j in range(len(par)):
                for bad in (0.0, -1.0, INF, -INF, NAN):
                    q = list(par)
                    q[j] = bad
                    for x in (0.5, 2.0, -1.0):
                        for w in xn:
                            ops.append(op_f(pre + w, [x] + q))
            out.append({"name": "edge-badparam-%s" % fam, "ops": ops, "tie_only": True})
        ops = []
        for x in (INF, -INF, NAN, 0.0):
            for w in ("pdf", "logpdf", "cdf", "logcdf", "surv", "logsurv"):
                ops.append(_mixop("hxp", w, x, mu=[0.0], q=[0.25, 0.75], l=[1.0, 2.0]))
                ops.append(_mixop("mixgev", w, x, q=[0.25, 0.5, 0.25], mu=[0.0, 1.0, -1.0], l=[1.0, 2.0, 0.5], al=[0.0, 0.5, -0.5]))
        for p in self.EDGE_P:
            ops.append(_mixop("hxp", "invcdf", p, mu=[3.0], q=[0.25, 0.75], l=[1.0, 2.0]))
            ops.append(_mixop("mixgev", "invcdf", p, q=[0.5, 0.5], mu=[0.0, 1.0], l=[1.0, 2.0], al=[0.0, 0.1]))
        out.append({"name": "edge-nonfinite-mix", "ops": ops, "tie_only": True})
        return out

    def at_mu_cases(self):
        """Round 6b: the exact support-edge values (theorems gam_at_mu / wei_at_mu / sxp_at_mu of Props/C10.lean) as DOCUMENTED
           values, compared bit-for-bit with the implementation (monitor `expect`) and with the model: x == mu exactly for
           tau < 1 (incl. 1 - 1 ulp), tau == 1, tau > 1 (incl. 1 + 1 ulp), and one ulp below mu (outside the support)."""
        INF = math.inf
        ops, want = [], []
        for mu, lam in ((0.0, 1.0), (3.0, 2.0), (-4.0, 0.5), (1e3, 1e-3), (-1e3, 1e3)):
            for tau in (0.05, 0.5, nextafter(1.0, -1), 1.0, nextafter(1.0, 1), 2.0, 20.0):
                edge_pdf = INF if tau < 1.0 else (lam if tau == 1.0 else 0.0)
                edge_log = INF if tau < 1.0 else (math.log(lam) if tau == 1.0 else -INF)
                for fam in ("gam", "wei", "sxp"):
                    pre = R.FAMILY[fam][0]
                    below = nextafter(mu, -1)
                    vals = [("cdf", mu, 0.0), ("surv", mu, 1.0), ("logcdf", mu, -INF), ("logsurv", mu, 0.0),
                            ("pdf", below, 0.0), ("logpdf", below, -INF), ("cdf", below, 0.0), ("surv", below, 1.0),
                            ("logcdf", below, -INF), ("logsurv", below, 0.0)]
                    if fam != "sxp":         # (esl_sxp_pdf(mu) = lambda tau / Gamma(1/tau): through esl_stats_LogGamma, judged by the closed-form monitor)
                        vals += [("pdf", mu, edge_pdf), ("logpdf", mu, edge_log)]
                    for w, x, v in vals:
                        ops.append(op_f(pre + w, [x, mu, lam, tau]))
                        want.append(dhex(v))
        return [{"name": "edge-at-mu-exact", "ops": ops, "expect": want}]

    def corpus(self, ctx):
        rng = ctx.rng
        out = self.edge_cases() + self.at_mu_cases()
        # canonical parameters: thresholds are hit exactly (x = y)
        for fam in self.families_T:
            for extra in ([[]] if fam in ("exp", "gumbel") else [[v] for v in ((1e-13, -1e-13, 5e-12, 0.5, -0.5) if fam == "gev" else (0.7, 1.0, 2.0))]):
                out.append(self.make_case(fam, [0.0, 1.0] + extra, rng, "canon-%s-%s" % (fam, extra), n_grid=len(Y_GRID), n_rand=4, n_p=len(P_GRID)))
        # ... and the families on the special functions, canonical parameters, so that every branch switch along x is hit at 1 ulp
        for fam, extras in (("sxp", ([0.5], [1.0], [2.0])), ("gam", ([0.5], [1.0], [2.0])), ("normal", ([],)), ("lognormal", ([],))):
            for extra in extras:
                out.append(self.make_case(fam, [0.0, 1.0] + extra, rng, "canon-%s-%s" % (fam, extra), n_grid=8, n_rand=2, n_p=4, deriv=1))
        # the inputs of the repaired defects (DESIGN §7 items 4, 12, 13) stay in the corpus as regression witnesses
        out.append({"name": "fixed-wei-cdf-smallx", "ops": [op_f("esl_wei_cdf", [1.0, 0.0, 1.0, 0.7]), op_f("esl_wei_surv", [1.0, 0.0, 1.0, 0.7]),
                                                           op_f("esl_wei_logcdf", [1.0, 0.0, 1.0, 0.7]), op_f("esl_wei_cdf", [1e-30, 0.0, 1.0, 0.7]),
                                                           op_f("esl_wei_logcdf", [1e-30, 0.0, 1.0, 0.7])]})
        out.append({"name": "fixed-gev-logsurv-frechet", "ops": [op_f("esl_gev_logsurv", [-10.0, 0.0, 1.0, 0.5]), op_f("esl_gev_surv", [-10.0, 0.0, 1.0, 0.5])]})
        out.append({"name": "fixed-gumbel-invsurv", "ops": [op_f("esl_gumbel_invsurv", [p, -20.0, 0.7]) for p in (1e-12, 1e-16, 1e-20, 1e-300)] +
                    ["f2 fn=esl_gumbel_surv,esl_gumbel_invsurv a=%s" % ",".join(dhex(v) for v in (p, -20.0, 0.7)) for p in (1e-12, 1e-16, 1e-20)]})
        # exact support bounds: parameters chosen as powers of two so that 1 + alpha*lambda*(x-mu) is exactly 0.0 at the bound
        for al in (0.25, -0.25, 1.0, -1.0, 2.0, -2.0, 0.5, -0.5):
            for lam, mu in ((0.5, 0.0), (2.0, 3.0), (1.0, -4.0)):
                b = mu - 1.0 / (al * lam)
                ops = []
                for x in (b, nextafter(b, 1), nextafter(b, -1), b + 0.25, b - 0.25):
                    for w in ("pdf", "logpdf", "cdf", "logcdf", "surv", "logsurv"):
                        ops.append(op_f("esl_gev_" + w, [x, mu, lam, al]))
                        ops.append(_mixop("mixgev", w, x, q=[0.5, 0.5], mu=[mu, mu], l=[lam, lam], al=[al, al]))
                out.append({"name": "bound-gev-%r-%r-%r" % (al, lam, mu), "ops": ops})
        for fam, shp in (("exp", []), ("wei", [0.5]), ("wei", [1.0]), ("wei", [2.0]), ("sxp", [0.5]), ("sxp", [1.0]), ("sxp", [2.0]), ("gam", [0.5]), ("gam", [1.0]), ("gam", [2.0])):
            pre, _, _, _, xn, _ = R.FAMILY[fam]
            for mu, lam in ((0.0, 1.0), (3.0, 2.0), (-4.0, 0.5)):
                ops = []
                for x in (mu, nextafter(mu, 1), nextafter(mu, -1), mu - 1.0, mu + 2.0 ** -60):
                    for w in xn:
                        ops.append(op_f(pre + w, [x, mu, lam] + shp))
                out.append({"name": "bound-%s-%r-%r" % (fam, shp, mu), "ops": ops})
        # documented edge values with an exact expectation (monitor compares bit patterns)
        INF = math.inf
        exp_cases = []
        for mu in (0.0, 3.0):         # "any lambda > 0 is valid... including infinity" (esl_exponential.c): logpdf must not be NaN
            exp_cases += [(op_f("esl_exp_logpdf", [mu - 1.0, mu, INF]), -INF), (op_f("esl_exp_logpdf", [mu, mu, INF]), INF),
                          (op_f("esl_exp_logpdf", [mu + 1.0, mu, INF]), -INF),
                          (op_f("esl_exp_logpdf", [nextafter(mu, -1), mu, INF]), -INF), (op_f("esl_exp_logpdf", [nextafter(mu, 1), mu, INF]), -INF),
                          (op_f("esl_exp_invcdf", [0.0, mu, 2.0]), mu), (op_f("esl_wei_invcdf", [0.0, mu, 2.0, 0.7]), mu)]
        for w, v in (("cdf", math.exp(-1.0)), ("logcdf", -1.0), ("pdf", math.exp(-1.0)), ("logpdf", -1.0),
                     ("surv", 1 - math.exp(-1.0)), ("logsurv", math.log(1 - math.exp(-1.0)))):
            exp_cases.append((op_f("esl_gev_" + w, [0.0, 0.0, 1.0, 0.0]), v))      # alpha = 0 exactly: the Gumbel (mixgev's default)
        out.append({"name": "exact-edges", "ops": [o for o, _ in exp_cases], "expect": [dhex(v) for _, v in exp_cases]})
        for key, ops in REGRESSION:
            out.append({"name": "fixed-" + key, "ops": ops})
        # repaired in 55bbf88 (was a known finding): p above the largest cdf value -> the right bracketing loop never ended
        out.append({"name": "fixed-invcdf-p-above-cdf-max",
                    "ops": [_mixop("hxp", "invcdf", 1.0, mu=[0.0], q=[0.1, 0.2, 0.7 - 1e-16], l=[1.0, 2.0, 3.0])]})
        # (|mu| < 2^53, far beyond the property's location range +-10^3: from 2^53 on mu + 1. == mu, the bracket has width 0 and
        #  never moves - (R) fails there, and the C loop indeed never ends for any p > 0)
        # carrier facts (R), (A) of bisection_bracket_returns_at_infinity at binary64 (Float #eval of BisectCarrier.reachInf
        # against the C loop), and its conclusion: esl_hxp_invcdf(1.0) with sum q < 1 returns +inf
        out.append({"name": "bracketlim-binary64", "ops": ["bracketlim mu=%s q=%s" % (dhex(m), dhex(q)) for m in sorted(set(MU_GRID)) + [2.0 ** 52, -2.0 ** 52, 1e-300, -1e-300]
                                                           for q in (0.5, 1 - 2.0 ** -53)] +
                    ["bracketlim mu=%s q=%s" % (dhex(rng.choice([-1, 1]) * self.logu(rng, 1e-6, 1e6)), dhex(rng.uniform(0.01, 0.99))) for _ in range(8)]})
        out.append({"name": "fixed-mixgev-invcdf-p-above-cdf-max",
                    "ops": [_mixop("mixgev", "invcdf", 1.0, q=[0.3, 0.7 - 1e-16], mu=[0.0, 1.0], l=[1.0, 2.0], al=[0.1, 0.2]),
                            _mixop("mixgev", "invcdf", 1.0, q=[0.3, 0.7 - 1e-16], mu=[0.0, 1.0], l=[1.0, 2.0], al=[-0.1, 0.2]),
                            _mixop("mixgev", "invcdf", 1.0, q=[0.5, 0.25], mu=[0.0, -3.0], l=[1.0, 0.5], al=[-0.5, -0.1])]})
        out.append({"name": "fixed-gev-log1p", "ops": [op_f("esl_gev_" + w, [x, 0.0, 1.0, al]) for al in (1e-12, -1e-12, 1.5e-12, 1e-10)
                                                       for x in (-1.0, 1.0, -10.0, nextafter(-10.0, 1)) for w in ("cdf", "logcdf", "surv", "pdf")] +
                    [op_f("esl_gev_invcdf", [p, 0.0, 1.0, al]) for al in (2e-12, -2e-12, 1e-10) for p in (0.5, 0.01, 0.99)]})
        return out

    def cases(self, ctx):
        rng = ctx.rng
        n = 120 if ctx.tier == "quick" else 1400
        out = []
        fams = list(self.families_T)
        for i in range(n):
            fam = fams[i % len(fams)]
            par = self.params(fam, rng, canonical=(rng.random() < 0.1))
            out.append(self.make_case(fam, par, rng, "gen%d-%s" % (i, fam)))
        nm = 48 if ctx.tier == "quick" else 600
        for i in range(nm):
            fam = self.families_M[i % len(self.families_M)]
            par = self.params(fam, rng, canonical=(rng.random() < 0.15))
            heavy = fam in ("sxp", "gam")
            out.append(self.make_case(fam, par, rng, "gen%d-%s" % (i, fam), n_grid=6 if heavy else 14, n_rand=4 if heavy else 8, deriv=1))
        for i in range(6 if ctx.tier == "quick" else 40):
            out.append(self.make_special_case(rng, "special%d" % i))
        for i in range(30 if ctx.tier == "quick" else 300):
            fam = ("hxp", "mixgev")[i % 2]
            out.append(self.make_mix_case(fam, rng, "mix%d-%s" % (i, fam)))
        for i in range(4 if ctx.tier == "quick" else 40):
            out.append(self.make_vec_case(rng, "vec%d" % i))
        return out

    # ------------------------------------------------------------------------------------------
    # monitors (L0 support: concrete failing inputs; NOT theorems)
    # ------------------------------------------------------------------------------------------
    def nontrivial(self, case, out):
        vals = [parse_out(l) for l in out]
        return all(v is not None for v in vals) and any(math.isfinite(x) and x not in (0.0, 1.0) for v in vals for x in v)

    def monitor(self, ctx, case, out):
        st = self.__dict__.setdefault("mstats", {"ops": {}, "values": {"finite": 0, "zero_or_one": 0, "inf": 0, "nan": 0}})
        for op, line in zip(case["ops"], out):
            kind, kv, _ = parse_op(op)
            key = kind + ":" + (kv.get("fam") + "_" if "fam" in kv else "") + kv.get("fn_raw", "")
            st["ops"][key] = st["ops"].get(key, 0) + 1
            for v in parse_out(line) or []:
                c = "nan" if v != v else "inf" if math.isinf(v) else "zero_or_one" if v in (0.0, 1.0) else "finite"
                st["values"][c] += 1
        return self.monitor_inner(ctx, case, out)

    def monitor_inner(self, ctx, case, out):
        ops = case["ops"]
        if case.get("tie_only"):
            self.__dict__.setdefault("tie_only_ops", [0])[0] += len(ops)
            # the closed ends of the p range of the closed-form inverses ARE judged: invcdf(0) / invsurv(1) is the lower end of the
            # support (-inf, mu, or the GEV bound mu - 1/(alpha lambda) for alpha > 0), invcdf(1) / invsurv(0) the upper end
            for op, line in zip(ops, out):
                kind, kv, a = parse_op(op)
                if kind != "f" or "_inv" not in kv.get("fn", "") or len(a) < 3 or a[0] not in (0.0, 1.0):
                    continue
                fam, which = R.split_fn(kv["fn"])
                if fam not in ("exp", "gumbel", "gev", "wei"):
                    continue
                res = parse_out(line)
                if res is None:
                    return Failure("monitor", "operation %r answered %r" % (op, line))
                lower = (a[0] == 0.0) == (which == "invcdf")
                if fam in ("exp", "wei"):
                    want = a[1] if lower else math.inf
                elif fam == "gumbel" or abs(a[3]) < 1e-12:
                    want = -math.inf if lower else math.inf
                else:
                    bound = a[1] - 1.0 / (a[3] * a[2])
                    want = (bound if a[3] > 0 else -math.inf) if lower else (math.inf if a[3] > 0 else bound)
                if not (res[0] == want or (math.isfinite(want) and abs(res[0] - want) <= 4 * 2.0 ** -52 * max(abs(want), abs(a[1])))):
                    return Failure("monitor", "%s(p = %r; %r) = %r, the %s end of the support is %r" % (kv["fn"], a[0], a[1:], res[0], "lower" if lower else "upper", want))
            return None
        if "expect" in case and len(case["expect"]) == len(ops):       # (a shrunk case no longer lines up: skip)
            for op, want, line in zip(ops, case["expect"], out):
                if line != "ok " + want:
                    return Failure("monitor", "%s returned %s, documented value %r" % (op, line, unhex(want)))
            return None
        pts = {}          # (fam, params bits) -> {x: {which: value}}
        widths = {}       # same keys -> width of the closed form's band (conditioning)
        uni = {}
        for op, line in zip(ops, out):
            if line.startswith(("fault", "atexit")):
                continue
            kind, kv, a = parse_op(op)
            res = parse_out(line)
            if res is None and kind == "gamsample" and line == "hang":
                # every forced variate was absorbed (mu + t/lambda == mu): the C loop draws again, the stream is exhausted
                if all(a[0] + unhex(v) / a[1] == a[0] for v in kv["t"].split(",")):
                    continue
            if res is None:
                return Failure("monitor", "operation %r answered %r" % (op, line))
            if kind == "gamsample":
                mu_, lam_ = a[0], a[1]
                want = None
                for t in [unhex(v) for v in kv["t"].split(",")]:
                    xv = mu_ + t / lam_               # binary64, as the C statement
                    if xv != mu_:
                        want = xv
                        break
                if len(res) != 2 or res[1] != a[2]:
                    return Failure("monitor", "esl_gam_Sample(mu, lambda, tau = %r) drew its variate with esl_rnd_Gamma(r, %r): the shape must be tau; %s" % (a[2], res[1:], op))
                if want is None or res[0] != want or res[0] == mu_:
                    return Failure("monitor", "esl_gam_Sample on the Gamma variates %r returned %r; the first mu + t/lambda != mu is %r; %s" % (
                        [unhex(v) for v in kv["t"].split(",")], res[0], want, op))
                continue
            if kind == "sampleof":
                fam, _ = R.split_fn(kv["fn"])
                u, sx = unhex(kv["u"]), res[0]
                if fam in ("exp", "gumbel", "gev", "wei"):
                    which = "invsurv" if fam == "exp" else "invcdf"      # esl_exp_Sample: mu - log(u)/lambda
                    band = R.reference_all(fam, "p", [u] + a)[which]
                    why = R.judge(sx, band, RELTOL[fam], RELTOL[fam] * abs(float(band[0]) - a[0]) if R.mpmath.isfinite(band[0]) else 0.0)
                    if why:
                        return Failure("monitor", "%s with deviate %r returned %r, %s of the deviate is %s: %s" % (kv["fn"], u, sx, which, R.mpmath.nstr(band[0], 17), why))
                elif fam == "sxp":
                    if len(res) != 2 or res[1] != 1.0 / a[2]:
                        return Failure("monitor", "esl_sxp_Sample(mu, lambda, tau = %r) drew its variate with esl_rnd_Gamma(r, %r): the shape must be 1/tau; %s" % (a[2], res[1:], op))
                    ref = R.mpmath.mpf(a[0]) + R.mpmath.mpf(u) ** (1 / R.mpmath.mpf(a[2])) / R.mpmath.mpf(a[1])
                    if not (abs(sx - ref) <= 1e-12 * abs(ref - a[0]) + 4 * 2.0 ** -52 * abs(a[0]) + 5e-324):
                        return Failure("monitor", "esl_sxp_Sample with Gamma variate %r returned %r, mu + t^(1/tau)/lambda = %s; %s" % (u, sx, R.mpmath.nstr(ref, 17), op))
                elif fam == "lognormal":
                    if res[1:] != [0.0, 1.0]:
                        return Failure("monitor", "esl_lognormal_Sample drew its variate with esl_rnd_Gaussian(r, %r): must be the standard normal (0, 1); %s" % (res[1:], op))
                    arg = R.mpmath.mpf(a[0]) + R.mpmath.mpf(a[1]) * R.mpmath.mpf(u)
                    ref = R.mpmath.exp(arg)
                    if not ((sx == math.inf and arg > 709.7) or abs(sx - ref) <= 4e-16 * (2 + abs(float(arg))) * ref + 5e-324):
                        return Failure("monitor", "esl_lognormal_Sample with Gaussian variate %r returned %r, exp(mu + sigma g) = %s; %s" % (u, sx, R.mpmath.nstr(ref, 17), op))
                continue
            if kind == "mixsampleof":
                L = lambda k: [unhex(t) for t in kv[k].split(",")]
                k_, u, sx = int(kv["k"]), unhex(kv["u"]), res[0]
                if kv["fam"] == "hxp":
                    cf, which, cp = "exp", "invsurv", [unhex(kv["mu"]), L("l")[k_]]
                else:
                    cf, which, cp = "gev", "invcdf", [L("mu")[k_], L("l")[k_], L("al")[k_]]
                band = R.reference_all(cf, "p", [u] + cp)[which]
                why = R.judge(sx, band, RELTOL[cf], RELTOL[cf] * abs(float(band[0]) - cp[0]) if R.mpmath.isfinite(band[0]) else 0.0)
                if why:
                    return Failure("monitor", "%s sampler, component %d, deviate %r returned %r; %s of the deviate under that component is %s: %s; %s" % (
                        kv["fam"], k_, u, sx, which, R.mpmath.nstr(band[0], 17), why, op))
                continue
            if kind == "bracketlim":
                k, x2, absorb, r = res
                if not (0 <= k <= 700 and x2 == math.inf and absorb == 1.0 and r == math.inf):
                    return Failure("monitor", "binary64 carrier facts of bisection_bracket_returns_at_infinity fail: passes %r, point reached %r, "
                                   "x2 <= (mu+x2)/2: %r, esl_hxp_invcdf(1.0) = %r; %s" % (k, x2, absorb, r, op))
                continue
            if kind == "vec":
                v = [unhex(t) for t in kv["v"].split(",")]
                r = res[0]
                if kv["fn"] in ("DMax", "DMin"):
                    want = max(v) if kv["fn"] == "DMax" else min(v)
                    if r != want:
                        return Failure("monitor", "esl_vec_%s(%r) = %r, the extreme entry is %r" % (kv["fn"], v, r, want))
                else:
                    m = max(v)
                    if m == math.inf or m == -math.inf:
                        want = m
                        ok = (r == want)
                    else:
                        want = m + float(R.mpmath.log(sum(R.mpmath.exp(R.mpmath.mpf(x) - m) for x in v if x > -math.inf)))
                        # what the 500-window drops is below e^-500 of the largest term
                        ok = abs(r - want) <= 1e-13 * max(1.0, abs(want))
                    if not ok:
                        return Failure("monitor", "esl_vec_DLogSum(%r) = %r but log sum exp = %r" % (v, r, want))
                continue
            if kind == "mix":
                fam, which = kv["fam"], kv["fn"]
                L = lambda k: [unhex(t) for t in kv[k].split(",")]
                q, lam = L("q"), L("l")
                if fam == "hxp":
                    mu0 = unhex(kv["mu"])
                    comps = [(q[k], "exp", [mu0, lam[k]]) for k in range(len(q))]
                    par = ("hxp", kv["mu"], kv["q"], kv["l"])
                else:
                    mus, als = L("mu"), L("al")
                    comps = [(q[k], "gev", [mus[k], lam[k], als[k]]) for k in range(len(q))]
                    par = ("mixgev", kv["q"], kv["mu"], kv["l"], kv["al"])
                x = unhex(kv["x"])
                if which == "invcdf" and fam == "mixgev" and x == 1.0 and res[0] == math.inf:
                    # p = 1 at or above the largest cdf value: since 55bbf88 the right bracket stops at +inf at the latest and the
                    # bisection returns +inf; a finite answer is judged like any other quantile below (cdf within 1e-9 of p inside
                    # the bisection's 1e-6 relative bracket - e.g. just left of a Weibull-type component's support bound)
                    continue
                if which == "invcdf" and fam == "hxp" and x in (0.0, 1.0):
                    xr = res[0]
                    if x == 0.0 and not (mu0 <= xr <= nextafter(mu0, 4) or (mu0 == 0.0 and 0.0 <= xr <= 1e-300)):
                        return Failure("monitor", "esl_hxp_invcdf(0) = %r, the support edge is %r; %s" % (xr, mu0, op))
                    # p = 1: the bracket runs out to where the binary64 cdf rounds to 1 (or to +inf)
                    if x == 1.0 and not (xr == math.inf or (xr >= mu0 and R.mix_reference(xr, comps)["cdf"][0] >= 1 - 1e-14)):
                        return Failure("monitor", "esl_hxp_invcdf(1) = %r, where the cdf is still %s; %s" % (
                            xr, R.mpmath.nstr(R.mix_reference(xr, comps)["cdf"][0], 17), op))
                    continue
                if which == "invcdf":
                    xr, p = res[0], x
                    cen = mu0 if fam == "hxp" else 0.0
                    d = 2.5e-6 * (abs(xr - cen) + 1e-9) + 4 * 2.0 ** -52 * max(abs(xr), abs(cen))
                    ok, lo, hi = R.quantile_ok(xr, p, lambda z: R.mix_reference(z, comps)["cdf"], d)
                    if not ok:
                        return Failure("monitor", "esl_%s_invcdf(p = %r) = %r but the mixture cdf there is in [%s, %s]; %s" % (
                            fam if fam == "hxp" else "mixgev", p, xr, R.mpmath.nstr(lo, 12), R.mpmath.nstr(hi, 12), op))
                    continue
                band = R.mix_reference(x, comps)[which]
                if which.startswith("log") and band[0] < -1e15 and res[0] == -math.inf:
                    continue        # esl_vec_DLogSum: `vec[i] > max - 500` absorbs for |max| > 2^53*500; far outside any range of use
                # the mixture coefficients sum to 1 only to rounding: log versions carry that absolutely
                why = R.judge(res[0], band, RELTOL[fam], 4.5e-16 if which.startswith("log") else 0.0)
                if why:
                    return Failure("monitor", "esl_%s_%s(x = %r) = %r but the closed form gives %s: %s; %s" % (
                        fam if fam == "hxp" else "mixgev", which, x, res[0], R.mpmath.nstr(band[0], 17), why, op))
                pts.setdefault((fam, par), {}).setdefault(x, {})[which] = res[0]
                if R.mpmath.isfinite(band[1]) and R.mpmath.isfinite(band[2]):
                    widths.setdefault((fam, par), {}).setdefault(x, {})[which] = float(band[2] - band[1])
                continue
            if kind == "f":
                fam, which = R.split_fn(kv["fn"])
                if fam is None:
                    continue
                fx = R.FAMILY[fam]
                if which == "invcdf" and fam in ("sxp", "gam") and a[0] == 0.0:
                    # p = 0: the bisection converges onto mu by its no-progress break, or stops earlier at a point where the
                    # binary64 cdf is exactly 0 = p (the intermediate (lambda (x-mu))^tau underflows: sxp forms it, the series of P starts with it)
                    if not (a[1] <= res[0] <= nextafter(a[1], 4) or (a[1] == 0.0 and 0.0 <= res[0] <= 1e-300)
                            or (res[0] > a[1] and R.mpmath.mpf((res[0] - a[1]) * a[2]) ** R.mpmath.mpf(a[3]) < 1e-300)):
                        return Failure("monitor", "%s(0; %r) = %r, the support edge is %r" % (kv["fn"], a[1:], res[0], a[1]))
                    continue
                if which == "invcdf" and fam in ("sxp", "gam"):       # bisection to 1e-6
                    xr, p = res[0], a[0]
                    d = 2.5e-6 * abs(xr - a[1]) + 4 * 2.0 ** -52 * max(abs(xr), abs(a[1]))
                    ok, lo, hi = R.quantile_ok(xr, p, lambda z: R.reference_all(fam, "x", [z] + a[1:])["cdf"], d, slack=4 * RELTOL[fam])
                    if not ok:
                        return Failure("monitor", "%s(p = %r; %r) = %r but the cdf there is in [%s, %s]" % (
                            kv["fn"], p, a[1:], xr, R.mpmath.nstr(lo, 12), R.mpmath.nstr(hi, 12)))
                    continue
                isx = which in fx[4]
                band = R.reference_all(fam, "x" if isx else "p", a)[which]
                ref = band[0]
                floor = 0.0
                if fam in ("sxp", "gam") and which in ("logcdf", "logsurv"):
                    # these two families take log() of the plain value (P = 1-Q or Q = 1-P formed in binary64): they are as
                    # accurate as the plain value is, not more: absolute 2^-52 next to 0, nothing below the denormal range
                    floor = 4.5e-16
                    if ref < -690 and (res[0] < -690):
                        continue
                if fam in ("sxp", "gam") and which == "logpdf":
                    floor = 1e-9            # esl_stats_LogGamma carries log(sqrt(2 pi)) to 9 digits (0.918938533)
                if not isx and R.mpmath.isfinite(ref):
                    floor = RELTOL[fam] * abs(float(ref) - a[1])      # a quantile is mu + offset: relative to the offset too
                why = R.judge(res[0], band, RELTOL[fam], floor)
                if why:
                    return Failure("monitor", "%s(%s) = %r but the closed form gives %s: %s" % (
                        kv["fn"], ", ".join(repr(v) for v in a), res[0], R.mpmath.nstr(ref, 17), why))
                if isx:
                    pts.setdefault((fam, tuple(a[1:])), {}).setdefault(a[0], {})[which] = res[0]
                    if R.mpmath.isfinite(band[1]) and R.mpmath.isfinite(band[2]):
                        widths.setdefault((fam, tuple(a[1:])), {}).setdefault(a[0], {})[which] = float(band[2] - band[1])
            elif kind == "f2":
                g, f = kv["fn"].split(",")
                fam, wg = R.split_fn(g)
                _, wf = R.split_fn(f)
                r = res[0]
                if wf in ("invcdf", "invsurv"):          # cdf(invcdf(p)) = p, surv(invsurv(p)) = p
                    p = a[0]
                    m = min(p, 1 - p)
                    tol = 1e-7 * m * (1 + abs(math.log(m))) if m > 0 else 0.0
                    if p > 0.5 or (wf == "invcdf" and fam in ("exp", "wei")):
                        tol += 3e-16         # 1-p is formed in binary64
                    # the quantile itself is rounded to binary64 (and carries the band of the closed-form inverse)
                    _, xlo, xhi = R.reference_all(fam, "p", a)[wf]
                    lo, hi = p, p
                    for xv in (xlo, xhi):
                        if R.mpmath.isfinite(xv):
                            for k in (-4, 4):
                                c = R.reference_all(fam, "x", [nextafter(float(xv), k)] + a[1:])[wg]
                                lo, hi = min(lo, float(c[1])), max(hi, float(c[2]))
                    if not (lo - tol <= r <= hi + tol):
                        return Failure("monitor", "%s(%s(p)) = %r for p = %r, parameters %r (allowed [%r, %r] +- %.3g)" % (g, f, r, p, a[1:], lo, hi, tol))
                else:                                     # invcdf(cdf(x)) = x in the bulk
                    x = a[0]
                    scale = 1.0 / a[2]
                    tol = 1e-6 * (scale + abs(x - a[1]))
                    if not (abs(r - x) <= tol):
                        return Failure("monitor", "%s(%s(x)) = %r for x = %r, parameters %r" % (g, f, r, x, a[1:]))
            elif kind == "unipos":
                uni[(kv["seed"], kv["k"])] = res
            elif kind == "sample" and kv["fn"] in ("esl_sxp_Sample", "esl_gam_Sample", "esl_lognormal_Sample"):
                fam, _ = R.split_fn(kv["fn"])
                xs = sorted(res)
                n = len(xs)
                if n >= 100:
                    if fam == "lognormal":
                        cdf = lambda z: float(R.mpmath.erfc(-(R.mpmath.log(z) - a[0]) / (a[1] * R.mpmath.sqrt(2))) / 2) if z > 0 else 0.0
                    else:
                        cdf = lambda z: float(R.reference_all(fam, "x", [z] + a)["cdf"][0])
                    # binary64 cannot hold mu + (offsets below ulp(mu)): esl_gam_Sample redraws those; only test where that
                    # mass is negligible
                    resolvable = fam == "lognormal" or a[0] == 0.0 or cdf(nextafter(a[0], 16)) < 1e-3
                    D = max(max(abs((i + 1) / n - c), abs(i / n - c)) for i, c in enumerate(cdf(z) for z in xs))
                    if resolvable and not (D <= 2.8 / math.sqrt(n)):      # asymptotic tail probability ~ 3e-7
                        return Failure("monitor", "%s: %d samples (seed %s, parameters %r) are not distributed by the family's cdf: "
                                       "Kolmogorov-Smirnov D = %.3f > %.3f" % (kv["fn"], n, kv["seed"], a, D, 2.8 / math.sqrt(n)))
            elif kind == "sample":
                us = uni.get((kv["seed"], kv["k"]))
                fam, _ = R.split_fn(kv["fn"])
                if us is None or fam is None:
                    continue
                for u, sx in zip(us, res):
                    which = "invcdf"
                    band = R.reference_all(fam, "p", [u] + a)[which]
                    ref = band[0]
                    why = R.judge(sx, band, RELTOL[fam])
                    if why and fam == "exp":     # esl_exp_Sample uses log(u) for log(1-u): u and 1-u are both uniform deviates
                        which = "invsurv"
                        band = R.reference_all(fam, "p", [u] + a)[which]
                        ref = band[0]
                        why = R.judge(sx, band, RELTOL[fam])
                    if why:
                        return Failure("monitor", "%s with deviate %r returned %r, %s of the deviate is %s: %s" % (
                            kv["fn"], u, sx, which, R.mpmath.nstr(ref, 17), why))
        # relations on the implementation's own outputs
        for (fam, par), byx in pts.items():
            rt = RELTOL[fam]
            xs = sorted(byx)
            last = {}
            for x in xs:
                v = byx[x]
                if "cdf" in v and "surv" in v and not (abs(v["cdf"] + v["surv"] - 1.0) <= max(rt, 1e-7)):
                    return Failure("monitor", "%s: cdf + surv = %r + %r at x = %r, parameters %r" % (fam, v["cdf"], v["surv"], x, list(par)))
                for w in ("pdf", "cdf", "surv"):
                    lw = "log" + w
                    if w in v and lw in v and math.isfinite(v[lw]) and v[w] > 1e-290 and math.isfinite(v[w]):
                        if not (abs(v[lw] - math.log(v[w])) <= 10 * rt * abs(v[lw]) + 5e-16 + 1e-7 * abs(math.log(v[w])) * (v[w] > 0.5)):
                            return Failure("monitor", "%s: %s = %r but log(%s) = %r at x = %r, parameters %r" % (fam, lw, v[lw], w, math.log(v[w]), x, list(par)))
                    if w in v and lw in v and v[w] == 0.0 and v[lw] > -700 and fam not in ("gam",):
                        return Failure("monitor", "%s: %s = 0 but %s = %r at x = %r, parameters %r" % (fam, w, lw, v[lw], x, list(par)))
                for w, sgn in (("cdf", 1), ("surv", -1), ("logcdf", 1), ("logsurv", -1)):
                    if w in v and v[w] == v[w]:
                        if w in last:
                            px, pv = last[w]
                            slack = 4 * rt * max(abs(pv), abs(v[w])) if math.isfinite(pv) and math.isfinite(v[w]) else 0.0
                            wd = widths.get((fam, par), {})
                            slack += wd.get(x, {}).get(w, 0.0) + wd.get(px, {}).get(w, 0.0)
                            if fam in ("hxp", "mixgev"):
                                slack += 4.5e-16          # coefficients sum to 1 only to rounding
                            if sgn * (v[w] - pv) < -slack:
                                return Failure("monitor", "%s: %s not monotone: %r at x = %r, %r at x = %r, parameters %r" % (fam, w, pv, px, v[w], x, list(par)))
                        last[w] = (x, v[w])
                if "cdf" in v and not (0.0 <= v["cdf"] <= (1.0 + 1e-15 if fam in ("hxp", "mixgev") else 1.0)):
                    return Failure("monitor", "%s: cdf = %r outside [0,1] at x = %r, parameters %r" % (fam, v["cdf"], x, list(par)))
                if "surv" in v and not (0.0 <= v["surv"] <= 1.0 + 1e-15):
                    return Failure("monitor", "%s: surv = %r outside [0,1] at x = %r, parameters %r" % (fam, v["surv"], x, list(par)))
                if "pdf" in v and not (v["pdf"] >= 0.0):
                    return Failure("monitor", "%s: pdf = %r at x = %r, parameters %r" % (fam, v["pdf"], x, list(par)))
            # pdf = d cdf / dx (central difference, bulk only)
            if fam in ("hxp", "mixgev", "lognormal"):
                continue
            scale = par[1] if fam == "normal" else 1.0 / par[1]
            h = scale * 2.0 ** -17
            for x in xs:
                v = byx[x]
                lo, hi = byx.get(x - h), byx.get(x + h)
                if "pdf" in v and lo and hi and "cdf" in lo and "cdf" in hi and "cdf" in v and 0.02 < v["cdf"] < 0.98 and (x + h) - (x - h) > 0 and h > abs(x) * 2.0 ** -30:
                    d = (hi["cdf"] - lo["cdf"]) / ((x + h) - (x - h))
                    wd = widths.get((fam, par), {})
                    noise = (wd.get(x - h, {}).get("cdf", 0.0) + wd.get(x + h, {}).get("cdf", 0.0)) / (2 * h)
                    if not (abs(d - v["pdf"]) <= 1e-4 * v["pdf"] + 1e-5 / scale + 2 * noise):
                        return Failure("monitor", "%s: pdf = %r but d cdf/dx = %r at x = %r, parameters %r" % (fam, v["pdf"], d, x, list(par)))
        return None

    def extra_evidence(self, ctx):
        st = getattr(self, "mstats", {"ops": {}, "values": {}})
        return {"translated_functions": getattr(self, "tinfo", {}).get("functions", []),
                "translated_partial_functions_with_fuel": getattr(self, "tinfo", {}).get("partial", []),
                "translated_structs": getattr(self, "tinfo", {}).get("structs", {}),
                "hand_modelled_functions": ["esl_stats_LogGamma", "esl_stats_IncompleteGamma", "esl_stats_erfc (coefficients dumped from source)",
                                            "esl_rnd_DChoose (Mix.dchoose; the samplers esl_hxp_Sample / esl_mixgev_Sample themselves are translated)",
                                            "(esl_gam_Sample is TRANSLATED since round 6; Mix.gamSample remains as its specification, gam_sample_generated)"],
                "primitive_variate_of_translated_samplers": getattr(self, "tinfo", {}).get("rng_prim", {}),
                "status_checked_special_calls": getattr(self, "tinfo", {}).get("status_checked_special_calls", {}),
                "not_covered": ["esl_rnd_Gamma / esl_rnd_Gaussian themselves (C09/C11 territory): the samplers built on them are translated as functions "
                                "of the variate and run against the C code on forced variates (ld --wrap); on the real generator a Kolmogorov-Smirnov monitor",
                                "esl_*_Plot (output formatting), esl_hyperexp_* / esl_mixgev_* constructors and I/O, esl_*_Fit* (C11)",
                                "esl_stats_Psi / Trigamma / DMean / ChiSquaredTest (status + out-parameter functions, used by the fitting code, C11)"],
                "literals_from_source_text": getattr(self, "tinfo", {}).get("literals", []),
                "hand_model_ops_equal_within_tolerance_but_not_bitwise": getattr(self, "hdrift", [0])[0],
                "input_distribution": {"ops_by_function": st["ops"], "returned_values": st["values"]},
                "tie_only_ops_at_nonfinite_and_edge_arguments": getattr(self, "tie_only_ops", [0])[0],
                "l0_branch_coverage": self.branch_coverage()}

    # `return` statements that no non-NaN argument reaches (listed so that "uncovered" means something)
    UNREACHABLE = {fn: {4: "x == mu and tau neither < 1, > 1 nor == 1: tau is NaN"}
                   for fn in ("esl_gam_pdf", "esl_gam_logpdf", "esl_wei_pdf", "esl_wei_logpdf")}

    def branch_coverage(self):
        """per translated scalar function: how many closed-form (mpmath) comparisons landed in each branch (= `return` statement of
           the translated decision tree, numbered and described by the translator from the current source), which branches were
           never reached, and for every pair of branches adjacent along the first argument whether the switch was witnessed between
           two ADJACENT binary64 values (threshold +-1 ulp)"""
        info = getattr(self, "tinfo", {})
        cov, tr = getattr(self, "leafcov", {}), getattr(self, "leaftrans", {})
        per, uncovered, unpinned = {}, [], []
        for fn, n in sorted(info.get("leaves", {}).items()):
            if R.split_fn(fn)[0] is None:
                continue
            paths = info.get("leaf_paths", {}).get(fn, [])
            hits = cov.get(fn, {})
            per[fn] = {"%d: %s" % (i, paths[i] if i < len(paths) else "?"): hits.get(i, 0) for i in range(n)}
            for i in range(n):
                if not hits.get(i) and i not in self.UNREACHABLE.get(fn, {}):
                    uncovered.append("%s branch %d (%s)" % (fn, i, paths[i] if i < len(paths) else "?"))
            for pair, (seen, pinned, near) in sorted(tr.get(fn, {}).items()):
                if near and not pinned:
                    unpinned.append("%s %s (seen %d times within 4 ulp, never between adjacent doubles)" % (fn, pair, near))
            if fn.endswith("_Sample"):      # judged through the `sampleof` operations (forced variate), one branch
                k0 = next(iter(per[fn]))
                per[fn][k0] = getattr(self, "mstats", {"ops": {}})["ops"].get("sampleof:" + fn, 0)
                uncovered = [u for u in uncovered if not u.startswith(fn + " ")] if per[fn][k0] else uncovered
        return {"comparisons_per_branch": per, "branches_total": sum(len(v) for v in per.values()),
                "branches_never_reached": uncovered, "unreachable_without_nan": {k: v for k, v in self.UNREACHABLE.items()},
                "switches_along_first_argument": {fn: {k: {"consecutive_sample_points": v[0], "within_4_ulp": v[2], "between_adjacent_doubles": v[1]} for k, v in sorted(d.items())}
                                                  for fn, d in sorted(tr.items())},
                "switches_never_witnessed_at_1ulp": unpinned}


SPEC = C10()
